"""Write seeded/<id>/meta.json (from the agent's meta + our confirmation log) and seeded/SUMMARY.md."""
import json, os, re, glob
HERE = os.path.dirname(os.path.dirname(os.path.abspath(__file__)))
rows = []
for d in sorted(glob.glob(os.path.join(HERE, "seeded", "C*-*"))):
    sid = os.path.basename(d)
    prop = sid.split("-")[0]
    log = open(os.path.join(d, "confirm.log")).read() if os.path.exists(os.path.join(d, "confirm.log")) else ""
    agent = {}
    p = os.path.join(d, "meta.agent.json")
    if os.path.exists(p):
        try:
            agent = json.load(open(p))
        except Exception:
            agent = {}
    m = re.search(r"tests_exit=(\S+) demo_with_change_exit=(\S+) demo_without_change_exit=(\S+)", log)
    tests, dw, do = (m.groups() if m else ("?", "?", "?"))
    tl = os.path.join(d, "tests.log")
    if tests == "skipped" and os.path.exists(tl):
        tail = open(tl).read().strip().splitlines()[-1:] or [""]
        if " passed" in tail[0] and "failed" not in tail[0]:
            tests = "0"      # verified by an earlier full confirmation run of the same patch (tests.log kept)
    head = (re.search(r"repo_head=(\S+)", log) or [None, "?"])[1]
    checks = {c: int(e) for c, e in re.findall(r"check (C\d+) exit=(\d+)", log)}
    first = (re.search(r"check C\d+ exit=1 (violation: .*)", log) or [None, ""])[1][:260]
    applies = "does not apply" not in log
    breaks = applies and dw not in ("0", "?") and do == "0"
    others = sorted(c for c, e in checks.items() if c != prop and e == 1)
    status = ("detected" if checks.get(prop) == 1 else (f"detected-by-{'+'.join(others)}" if others else "MISSED")) if breaks \
        else ("neutralised" if applies else "unportable")
    note = ""
    extra = os.path.join(d, "note.txt")
    if os.path.exists(extra):
        note = open(extra).read().strip()
    meta = {"id": sid, "property": prop, "summary": agent.get("summary", ""), "needs": agent.get("needs", ""),
            "files": agent.get("files", []), "source": "independent sub-agent given only the property text and its own scratch worktree",
            "confirmed_on_repo_head": head, "pinned_tests_exit_with_change": tests, "demo_exit_with_change": dw,
            "demo_exit_without_change": do, "breaks_property_on_current_tree": bool(breaks),
            "quick_check_exit_codes": checks, "status": status, "first_violation_reported": first,
            "what_was_run": "tools/seed_confirm.sh: scratch worktree of /repo HEAD outside /repo and /verif, git apply patch.diff, pinned "
                            "pytest suite, demo.py with and without the change, ./check <ID> --tier quick with KV_REPO pointing at the "
                            "patched worktree; worktree removed afterwards", "note": note}
    json.dump(meta, open(os.path.join(d, "meta.json"), "w"), indent=1)
    rows.append(meta)
with open(os.path.join(HERE, "seeded", "SUMMARY.md"), "w") as f:
    f.write("# Seeded changes (independent sub-agents) vs the quick checks\n\n")
    f.write("| id | status | tests with change | demo with/without | check exit | what was changed | first violation reported |\n|---|---|---|---|---|---|---|\n")
    for r in rows:
        f.write(f"| {r['id']} | {r['status']} | {r['pinned_tests_exit_with_change']} | {r['demo_exit_with_change']}/{r['demo_exit_without_change']} | "
                f"{r['quick_check_exit_codes']} | {r['summary'][:160].replace('|', '/')} | {r['first_violation_reported'][:160].replace('|', '/')} |\n")
    det = sum(r["status"] == "detected" for r in rows); live = sum(r["breaks_property_on_current_tree"] for r in rows)
    cross = sum(r["status"].startswith("detected-by-") for r in rows)
    f.write(f"\n{det} of {live} live seeded changes detected by the quick check of their own property, {cross} more only by the check of "
            f"another property (see DESIGN.md 8.11), {live - det - cross} missed; "
            f"{sum(r['status'] == 'neutralised' for r in rows)} neutralised by a fix commit (no longer break the property).\n")
print(open(os.path.join(HERE, "seeded", "SUMMARY.md")).read()[-400:])
