#!/bin/sh
# usage: tools/sweep.sh "<seeds>" [tier]  -- run every registered check on the unchanged tree at several seeds (evidence goes
# to a scratch directory), print one line per run; any line not ending in "exit=0" needs attention.
HERE="$(cd "$(dirname "$0")/.." && pwd)"; cd "$HERE"
OUT="$(mktemp -d /var/tmp/kvsweep.XXXXXX)"
for seed in $1; do for i in $(seq -w 1 20); do id="C$i"
  t0=$(date +%s); VERIF_SEED=$seed KV_OUT="$OUT" ./check $id --tier "${2:-quick}" > "$OUT/$id-$seed.log" 2>&1; c=$?; t1=$(date +%s)
  echo "$id seed=$seed secs=$((t1-t0)) $(grep -E "^$id tier" "$OUT/$id-$seed.log" | cut -d: -f2 | cut -c1-90) exit=$c"
  [ $c -ne 0 ] && grep -E "^(violation|HARNESS)" "$OUT/$id-$seed.log" | head -3 | cut -c1-300
done; done
rm -rf "$OUT"
