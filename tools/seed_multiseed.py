#!/venv/bin/python
"""Detection robustness of the seeded changes across VERIF_SEED values.

usage: tools/seed_multiseed.py <seed> [ids...]      (PAR=<n> parallel jobs, default 3)

For every kept seeded change (seeded/<ID>-<n>/patch.diff, not neutralised) a scratch worktree of /repo's HEAD is made under
/var/tmp, the change applied, and the quick check of its property run with VERIF_SEED=<seed>, KV_REPO=<worktree> and a scratch
KV_OUT (so /repo and /verif/evidence are untouched).  Writes seeded/MULTISEED-<seed>.md: id, exit code, first violation line."""
import os, subprocess, sys, tempfile, shutil, json
from concurrent.futures import ThreadPoolExecutor

HERE = os.path.dirname(os.path.dirname(os.path.abspath(__file__)))


def one(args):
    sid, seed = args
    prop = sid.split("-")[0]
    d = os.path.join(HERE, "seeded", sid)
    wt = tempfile.mkdtemp(prefix="kvms.", dir="/var/tmp")
    os.rmdir(wt)
    out = tempfile.mkdtemp(prefix="kvmsout.", dir="/var/tmp")
    try:
        subprocess.run(["git", "-C", "/repo", "worktree", "add", "-q", "--detach", wt, "HEAD"], check=True)
        r = subprocess.run(["git", "-C", wt, "apply", os.path.join(d, "patch.diff")], capture_output=True, text=True)
        if r.returncode:
            return sid, "patch-does-not-apply", ""
        env = dict(os.environ, KV_REPO=wt, KV_OUT=out, VERIF_SEED=str(seed))
        r = subprocess.run([os.path.join(HERE, "check"), prop, "--tier", "quick"], capture_output=True, text=True, env=env, cwd=HERE)
        first = next((l for l in r.stdout.splitlines() if l.startswith(("violation:", "HARNESS"))), "")
        return sid, r.returncode, first[:260]
    finally:
        subprocess.run(["git", "-C", "/repo", "worktree", "remove", "--force", wt], capture_output=True)
        shutil.rmtree(wt, ignore_errors=True)
        shutil.rmtree(out, ignore_errors=True)


def main():
    seed = int(sys.argv[1])
    ids = sys.argv[2:] or sorted(x for x in os.listdir(os.path.join(HERE, "seeded"))
                                 if os.path.isfile(os.path.join(HERE, "seeded", x, "patch.diff"))
                                 and not os.path.exists(os.path.join(HERE, "seeded", x, "note.txt")))
    with ThreadPoolExecutor(int(os.environ.get("PAR", "3"))) as ex:
        res = list(ex.map(one, [(i, seed) for i in ids]))
    det = sum(1 for _, c, _ in res if c == 1)
    lines = [f"# Seeded changes vs quick checks at VERIF_SEED={seed}", "",
             f"{det} of {len(res)} detected (exit 1).", "", "| id | exit | first violation |", "|---|---|---|"]
    for sid, c, first in res:
        lines.append(f"| {sid} | {c} | {first.replace('|', '/')} |")
    path = os.path.join(HERE, "seeded", f"MULTISEED-{seed}.md")
    if sys.argv[2:]:
        print("\n".join(lines))
    else:
        open(path, "w").write("\n".join(lines) + "\n")
        print(f"{det} of {len(res)} detected; {path}")
    for sid, c, _ in res:
        if c != 1:
            print("NOT DETECTED:", sid, c)


if __name__ == "__main__":
    main()
