#!/bin/sh
# Re-confirm every kept seeded change against /repo's current HEAD and the current checks (4 at a time), then write
# seeded/<id>/meta.json and seeded/SUMMARY.md.   usage: tools/seed_rerun_all.sh [ids...]
HERE="$(cd "$(dirname "$0")/.." && pwd)"
cd "$HERE"
IDS="$*"; [ -z "$IDS" ] && IDS="$(ls seeded | grep -E '^C[0-9]+-[0-9]+$')"
echo "$IDS" | tr ' ' '\n' | xargs -P ${SEED_PAR:-4} -I{} sh -c 'p=$(echo {} | cut -d- -f1); extra=$(cat "'$HERE'/seeded/{}/also_checks.txt" 2>/dev/null); tools/seed_confirm.sh "'$HERE'/seeded/{}" - $p $p $extra > /dev/null 2>&1'
/venv/bin/python tools/seed_summary.py
