#!/bin/sh
# usage: tools/seed_confirm.sh <worktree> <n> <PROP> [<check ids>...]
# Confirms a seeded change produced in <worktree>/out (patch<n>.diff, demo<n>.py, meta<n>.json): applies it in the
# worktree, runs the pinned test suite, runs the demo with and without it; if all as claimed stores it under
# /verif/seeded/<PROP>-<n>/ and runs the listed quick checks against the patched worktree (KV_REPO), never touching /repo.
WT="$1"; N="$2"; PROP="$3"; shift 3
HERE="$(cd "$(dirname "$0")/.." && pwd)"
DST="$HERE/seeded/$PROP-$N"; mkdir -p "$DST"
LOG="$DST/confirm.log"; : > "$LOG"
cd "$WT" || exit 2
git checkout -q -- . ; git apply "out/patch$N.diff" || { echo "patch does not apply" | tee -a "$LOG"; exit 2; }
/venv/bin/python -m pytest -q -p no:cacheprovider --timeout=900 -x tests > "$DST/tests.log" 2>&1; T=$?
tail -1 "$DST/tests.log" >> "$LOG"
/venv/bin/python "out/demo$N.py" > "$DST/demo_with.log" 2>&1; DW=$?
echo "tests_exit=$T demo_with_change_exit=$DW" >> "$LOG"
OUTD="$(mktemp -d /var/tmp/kvseed.XXXXXX)"
for id in "$@"; do
  (cd "$HERE" && KV_REPO="$WT" KV_OUT="$OUTD" ./check "$id" --tier quick > "$DST/check-$id.log" 2>&1); C=$?
  echo "check $id exit=$C $(grep -E '^(violation:|HARNESS)' "$DST/check-$id.log" | head -2 | cut -c1-300)" >> "$LOG"
done
rm -rf "$OUTD"
git checkout -q -- .
/venv/bin/python "out/demo$N.py" > "$DST/demo_without.log" 2>&1; DO=$?
echo "demo_without_change_exit=$DO" >> "$LOG"
cp "out/patch$N.diff" "$DST/patch.diff"; cp "out/demo$N.py" "$DST/demo.py"; cp "out/meta$N.json" "$DST/meta.agent.json"
cat "$LOG"
