#!/bin/sh
# usage: tools/seed_confirm.sh <srcdir> <n> <PROP> [<check ids>...]
# Confirms a seeded change (<srcdir>/patch<n>.diff, demo<n>.py, meta<n>.json; or <srcdir>/patch.diff, demo.py when n is
# "-"): in a scratch worktree of /repo's CURRENT HEAD (outside /repo and /verif) applies it, runs the pinned test suite,
# runs the demo with and without it, runs the listed quick checks against the patched worktree (KV_REPO; /repo itself is
# never touched), stores everything under /verif/seeded/<PROP>-<n>/ and removes the worktree.
SRC="$1"; N="$2"; PROP="$3"; shift 3
HERE="$(cd "$(dirname "$0")/.." && pwd)"
if [ "$N" = "-" ]; then P="$SRC/patch.diff"; D="$SRC/demo.py"; M="$SRC/meta.agent.json"; DST="$SRC"
else P="$SRC/patch$N.diff"; D="$SRC/demo$N.py"; M="$SRC/meta$N.json"; DST="$HERE/seeded/$PROP-$N"; mkdir -p "$DST"
  cp "$P" "$DST/patch.diff"; cp "$D" "$DST/demo.py"; cp "$M" "$DST/meta.agent.json"; fi
P="$DST/patch.diff"; D="$DST/demo.py"
LOG="$DST/confirm.log"; : > "$LOG"
WT="$(mktemp -d /var/tmp/kvwt.XXXXXX)"; rmdir "$WT"
git -C /repo worktree add -q --detach "$WT" HEAD || exit 2
trap 'git -C /repo worktree remove --force "$WT" 2>/dev/null; rm -rf "$WT" "$OUTD"' EXIT INT TERM
cd "$WT" || exit 2
echo "repo_head=$(git rev-parse --short HEAD)" >> "$LOG"
mkdir -p out; cp "$D" out/demo.py
/venv/bin/python out/demo.py > "$DST/demo_without.log" 2>&1; DO=$?
git apply "$P" || { echo "patch does not apply to current HEAD" | tee -a "$LOG"; exit 2; }
if [ -z "$SKIP_TESTS" ]; then
/venv/bin/python -m pytest -q -p no:cacheprovider --timeout=900 tests > "$DST/tests.log" 2>&1; T=$?
tail -1 "$DST/tests.log" >> "$LOG"; else T=skipped; fi
/venv/bin/python out/demo.py > "$DST/demo_with.log" 2>&1; DW=$?
echo "tests_exit=$T demo_with_change_exit=$DW demo_without_change_exit=$DO" >> "$LOG"
OUTD="$(mktemp -d /var/tmp/kvseed.XXXXXX)"
for id in "$@"; do
  (cd "$HERE" && KV_REPO="$WT" KV_OUT="$OUTD" ./check "$id" --tier quick > "$DST/check-$id.log" 2>&1); C=$?
  echo "check $id exit=$C $(grep -E '^(violation:|HARNESS)' "$DST/check-$id.log" | head -2 | cut -c1-300)" >> "$LOG"
done
cat "$LOG"
