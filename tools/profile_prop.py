"""usage: python tools/profile_prop.py C08 [n] -- time evaluate() per label over n generated cases (single process)."""
import sys, time, importlib, collections, json, warnings
sys.path.insert(0, '.')
from hypothesis import given, settings, HealthCheck, Phase, seed
from kv.core import Violation
pid = sys.argv[1]; n = int(sys.argv[2]) if len(sys.argv) > 2 else 300
lab = sys.argv[3] if len(sys.argv) > 3 else 'op:'
mod = importlib.import_module(f'kv.props.{pid.lower()}')
T = collections.defaultdict(lambda: [0, 0.0, 0.0, None]); exc = collections.Counter()
@seed(5)
@settings(max_examples=n, database=None, deadline=None, suppress_health_check=list(HealthCheck), phases=[Phase.generate])
@given(mod.cases('quick'))
def t(case):
    t0 = time.time()
    try:
        info = mod.evaluate(case); labels = info.labels
        for k in info.counters: exc[k] += 1
    except Violation as v:
        labels = ['VIOLATION:' + v.op]; print('V', str(v)[:300], json.dumps(case)[:600])
    dt = time.time() - t0
    for l in labels:
        if l.startswith(lab) or l.startswith('VIOL'):
            e = T[l]; e[0] += 1; e[1] += dt
            if dt > e[2]: e[2] = dt; e[3] = case
t()
for l, (c, tot, mx, case) in sorted(T.items(), key=lambda x: -x[1][1]):
    print(f'{l:24s} n={c:4d} total={tot:7.2f}s max={mx:6.2f}s', json.dumps(case)[:260] if mx > 2 else '')
print(dict(exc))
