"""Coefficient *representations*: the same numbers stored as Python ints / bools / floats / Fractions / complex numbers, numpy
scalars, one ndarray per multivector (1-D: scalar coefficients; 2-D: array-valued coefficients; int64 / float64 /
complex128), or a list of arrays -- plus the special values call-time shortcuts tend to treat specially (0, +-1, all equal,
"no positive coefficient", integers above 2**53).  Everything is drawn by Hypothesis and JSON-encodable; `build` makes the
kingdon multivector, `ref` the dict the reference operators work on (they are generic over the coefficient ring, numpy
arrays included)."""
from __future__ import annotations
from fractions import Fraction

from hypothesis import strategies as st

KINDS = ["int", "int", "float", "Fraction", "complex", "bool", "np.int64", "np.float64", "np.complex128",
         "nd-int", "nd-float", "nd-float", "nd-complex", "nd2-int", "nd2-float", "nd2-float", "listarr-float", "listarr-int",
         "special", "special"]
SCALAR_KINDS = ["int", "float", "Fraction", "complex", "bool", "np.int64", "np.float64", "np.complex128", "special"]


@st.composite
def typed(draw, n, kinds=None, width=None):
    """{"t": kind, "v": [ints], "im": [ints]|None, "w": int, "sp": str|None}: n coefficients (halves of v for the non-integer
    kinds), for array-valued kinds `w` entries per coefficient derived deterministically from v."""
    kind = draw(st.sampled_from(kinds or KINDS))
    sp = None
    if kind == "special":
        sp = draw(st.sampled_from(["zeros-ones", "all-equal", "nonpositive-with-zero", "minus-one", "zero-first"]))
        if sp == "zeros-ones":
            v = [draw(st.sampled_from([0, 1, -1, 1, 0, 2])) for _ in range(n)]
        elif sp == "all-equal":
            v = [draw(st.sampled_from([1, -1, 2, 3]))] * n
        elif sp == "nonpositive-with-zero":
            v = [draw(st.sampled_from([0, -1, -2, 0, -3])) for _ in range(n)]
        elif sp == "big-int":
            v = [draw(st.sampled_from([2 ** 53 + 1, -(2 ** 53) - 3, 2 ** 60 + 7, 1, 3])) for _ in range(n)]
        elif sp == "minus-one":
            v = [-1] * n
        else:
            v = [0] + [draw(st.integers(-3, 3)) for _ in range(max(0, n - 1))]
        kind = draw(st.sampled_from(["int", "float", "Fraction"])) if sp != "big-int" else "int"
    elif kind == "bool":
        v = [draw(st.sampled_from([0, 1])) for _ in range(n)]
    else:
        v = [draw(st.integers(-5, 5)) for _ in range(n)]
    im = [draw(st.integers(-3, 3)) for _ in range(n)] if "complex" in kind else None
    return {"t": kind, "v": v, "im": im, "w": width or 2, "sp": sp}


def _num(kind, x, y=None):
    import numpy as np
    if kind in ("int", "bool", "np.int64"):
        return {"int": int, "bool": bool, "np.int64": np.int64}[kind](x)
    if kind == "float":
        return x / 2
    if kind == "Fraction":
        return Fraction(x, 2)
    if kind == "complex":
        return complex(x / 2, y)
    if kind == "np.float64":
        return np.float64(x / 2)
    if kind == "np.complex128":
        return np.complex128(complex(x / 2, y))
    raise KeyError(kind)


def decode(tv):
    """-> the `values` container to hand to kingdon: list of numbers, one ndarray, or list of arrays."""
    import numpy as np
    t, v, im, w = tv["t"], tv["v"], tv.get("im"), tv.get("w", 2)
    if not t.startswith(("nd", "listarr")):
        return [_num(t, x, im[i] if im else None) for i, x in enumerate(v)]
    if t == "nd-int":
        return np.array(v, dtype=np.int64).reshape(len(v))
    if t == "nd-float":
        return np.array([x / 2 for x in v], dtype=np.float64).reshape(len(v))
    if t == "nd-complex":
        return np.array([complex(x / 2, y) for x, y in zip(v, im)], dtype=np.complex128).reshape(len(v))
    grid = np.arange(w)
    if t in ("nd2-int", "listarr-int"):
        arr = np.array([[x * (1 + j) + j for j in grid] for x in v], dtype=np.int64).reshape(len(v), w)
    else:
        arr = np.array([[x / 2 * (1 + j) + 0.25 * j for j in grid] for x in v], dtype=np.float64).reshape(len(v), w)
    if t.startswith("listarr"):
        return [np.array(r) for r in arr]
    return arr


def build(alg, keys, tv):
    from . import kd
    vals = decode(tv)
    return kd.mk_raw(alg, list(keys), vals) if not isinstance(vals, list) or tv["t"].startswith("listarr") else kd.mk(alg, keys, vals)


def ref(keys, tv):
    vals = decode(tv)
    return {k: vals[i] for i, k in enumerate(keys)}


def is_array(tv):
    return tv["t"].startswith(("nd2", "listarr"))


def describe(tv):
    return tv["t"] + (":" + tv["sp"] if tv.get("sp") else "")
