"""One shard of one property run: fresh interpreter, own derived seed, writes a partial result file.

usage: python -m kv.shard <ID> <tier> <seed> <shard> <nshards> <outfile>
"""
from __future__ import annotations
import copy
import hashlib
import importlib
import json
import os
import sys
import time
import traceback

from .core import Violation, HarnessError, Info, case_hash, jsonable
from . import findings

HERE = os.path.dirname(os.path.dirname(os.path.abspath(__file__)))


class ShardFail(Exception):
    pass


def derive_seed(*parts) -> int:
    h = hashlib.sha256("/".join(str(p) for p in parts).encode()).digest()
    return int.from_bytes(h[:8], "big")


class Shard:
    def __init__(self, mod, tier, seed, shard, nshards):
        self.mod = mod
        self.tier = tier
        self.seed = seed
        self.shard = shard
        self.nshards = nshards
        self.t0 = time.time()
        self.entries = findings.load(mod.ID)
        self.evaluations = 0
        self.generated = 0
        self.enumerated = 0
        self.replayed = 0
        self.nontrivial = set()
        self.allcases = set()
        self.labels = {}
        self.counters = {}
        self.samples = []
        self.trivial_sample = None
        self.known = {}
        self.excluded = {}
        self.violations = []          # [{case, violation, source}]
        self.done_buckets = set()
        self.harness_error = None
        self.skipped_budget = 0
        self.slowest = []             # [(seconds, case)] top 3
        self.history = []             # the last cases evaluated in this process (context for failures that need process state)
        # hypothesis round state
        self.target = None
        self.best_case = None
        self.best_violation = None
        self.shrink_start = None
        b = mod.budget(tier)
        self.wall = b.get("wall", 120 if tier == "quick" else 1200)
        self.shrink_budget = b.get("shrink", 45 if tier == "quick" else 240)

    # ------------------------------------------------------------------------------------------------------------
    def record_info(self, case, info: Info):
        self.evaluations += 1
        for l in info.labels:
            self.labels[l] = self.labels.get(l, 0) + 1
        for k, v in info.counters.items():
            self.counters[k] = self.counters.get(k, 0) + v
        h = case_hash(info.key if info.key is not None else case)
        self.allcases.add(h)
        if info.units:
            self.counters["unit_checks"] = self.counters.get("unit_checks", 0) + len(info.units)
            for ukey, unt in info.units:
                if unt:
                    self.nontrivial.add(case_hash(ukey))
            if any(unt for _, unt in info.units) and len(self.samples) < 4 and h not in self.nontrivial:
                s = {"case": jsonable(case), "labels": list(info.labels)}
                if info.sample is not None:
                    s["observed"] = jsonable(info.sample)
                self.samples.append(s)
            return
        if info.nontrivial:
            if h not in self.nontrivial:
                self.nontrivial.add(h)
                if len(self.samples) < 4:
                    s = {"case": jsonable(case), "labels": list(info.labels)}
                    if info.sample is not None:
                        s["observed"] = jsonable(info.sample)
                    self.samples.append(s)
        elif self.trivial_sample is None:
            self.trivial_sample = {"case": jsonable(case), "labels": list(info.labels), "trivial": True}

    def remember(self, case):
        self.history.append(jsonable(case))
        if len(self.history) > 2400:
            del self.history[:400]

    def run_plain(self, case, source):
        """Evaluate outside Hypothesis (regress replays, enumerations).  Violations recorded once per bucket."""
        if self.harness_error:
            return
        context = list(self.history)
        self.remember(case)
        try:
            info = self.mod.evaluate(case)
        except Violation as v:
            self.evaluations += 1
            fid = findings.match(self.mod, self.entries, case, v)
            if fid:
                self.known[fid] = self.known.get(fid, 0) + 1
                return
            b = v.bucket()
            if b in self.done_buckets:
                self.excluded[b] = self.excluded.get(b, 0) + 1
                return
            self.done_buckets.add(b)
            self.violations.append({"case": jsonable(case), "violation": v.to_json(), "source": source, "context": context})
        except Exception:
            self.harness_error = f"evaluate crashed on {source} case {json.dumps(jsonable(case))[:2000]}\n" + traceback.format_exc()
        else:
            self.record_info(case, info)

    def hyp_case(self, case):
        if self.harness_error:
            return
        if self.target is None:
            if time.time() - self.t0 > self.wall:
                self.skipped_budget += 1
                return
            self.generated += 1
        elif time.time() - self.shrink_start > self.shrink_budget and case != self.best_case:
            return      # shrink budget used up: let the shrinker converge on the best case found so far
        self.remember(case)
        try:
            t1 = time.time()
            try:
                info = self.mod.evaluate(case)
            finally:
                dt = time.time() - t1
                if dt > 1.0 and (len(self.slowest) < 3 or dt > self.slowest[-1][0]):
                    self.slowest = sorted(self.slowest + [(round(dt, 2), jsonable(case))], key=lambda e: -e[0])[:3]
        except Violation as v:
            self.evaluations += 1
            fid = findings.match(self.mod, self.entries, case, v)
            if fid:
                self.known[fid] = self.known.get(fid, 0) + 1
                return
            b = v.bucket()
            if b in self.done_buckets:
                self.excluded[b] = self.excluded.get(b, 0) + 1
                return
            if self.target is None:
                self.target = b
                self.shrink_start = time.time()
                self.fail_context = list(self.history)
            if b != self.target:
                return
            self.best_case = copy.deepcopy(case)
            self.best_violation = v
            raise ShardFail(str(v))
        except ShardFail:
            raise
        except Exception:
            self.harness_error = f"evaluate crashed on generated case {json.dumps(jsonable(case))[:2000]}\n" + traceback.format_exc()
            return
        else:
            self.record_info(case, info)

    # ------------------------------------------------------------------------------------------------------------
    def run(self):
        mod, tier = self.mod, self.tier
        # 1. regress replays (shard 0 only; seconds)
        if self.shard == 0:
            rdir = os.path.join(HERE, "regress", mod.ID)
            if os.path.isdir(rdir):
                for fn in sorted(os.listdir(rdir)):
                    if fn.endswith(".json"):
                        with open(os.path.join(rdir, fn)) as f:
                            data = json.load(f)
                        self.replayed += 1
                        self.run_plain(data["case"], f"regress/{mod.ID}/{fn}")
        # 2. enumerated sub-spaces
        enum = getattr(mod, "enumerate_cases", None)
        if enum is not None:
            for i, case in enumerate(enum(tier)):
                if i % self.nshards != self.shard:
                    continue
                if time.time() - self.t0 > self.wall * 0.6:
                    self.counters["enumeration_cut_by_wall"] = self.counters.get("enumeration_cut_by_wall", 0) + 1
                    break
                self.enumerated += 1
                self.run_plain(case, "enumeration")
        # 3. generated cases
        total = max(1, mod.budget(tier)["examples"] // self.nshards)
        rounds = 0
        import hypothesis
        from hypothesis import given, settings, HealthCheck, Phase
        while rounds < 6 and not self.harness_error:
            remaining = total - self.generated
            if remaining <= 0 or time.time() - self.t0 > self.wall:
                break
            rounds += 1
            self.target = None
            self.best_case = None
            self.best_violation = None
            strat = mod.cases(tier)

            @hypothesis.seed(derive_seed(mod.ID, self.seed, self.shard, rounds))
            @settings(max_examples=remaining, database=None, deadline=None, derandomize=False,
                      report_multiple_bugs=False, suppress_health_check=list(HealthCheck),
                      phases=[Phase.generate, Phase.shrink], print_blob=False)
            @given(strat)
            def test(case):
                self.hyp_case(case)

            try:
                test()
            except BaseException as e:   # ShardFail, Flaky wrappers, ...
                if isinstance(e, (KeyboardInterrupt, SystemExit)):
                    raise
                if self.best_case is None:
                    self.harness_error = self.harness_error or ("hypothesis run failed without a recorded violation:\n" + traceback.format_exc())
                    break
            if self.target is None:
                break        # completed without violation
            # confirm minimal case outside hypothesis
            case, v = self.best_case, self.best_violation
            try:
                mod.evaluate(copy.deepcopy(case))
                confirmed = None
            except Violation as v2:
                confirmed = v2
            except Exception:
                confirmed = None
            if confirmed is None or confirmed.bucket() != self.target:
                self.harness_error = ("non-reproducible violation (flaky oracle?) for case "
                                      + json.dumps(jsonable(case))[:2000] + f"\nfirst: {v}\nreplay: {confirmed}")
                break
            self.done_buckets.add(self.target)
            self.violations.append({"case": jsonable(case), "violation": confirmed.to_json(), "source": "generated+shrunk",
                                    "context": [c for c in self.history if c != jsonable(case)]})
        return self.result()

    def result(self):
        samples = list(self.samples)
        if self.trivial_sample is not None:
            samples.append(self.trivial_sample)
        return {
            "shard": self.shard, "evaluations": self.evaluations, "generated": self.generated,
            "enumerated": self.enumerated, "replayed": self.replayed,
            "nontrivial": sorted(self.nontrivial), "allcases": sorted(self.allcases), "labels": self.labels, "counters": self.counters,
            "samples": samples, "known": self.known, "excluded": self.excluded,
            "violations": self.violations, "harness_error": self.harness_error,
            "skipped_budget": self.skipped_budget, "slowest": self.slowest, "wall": round(time.time() - self.t0, 2),
        }


def main(argv):
    pid, tier, seed, shard, nshards, out = argv[1], argv[2], int(argv[3]), int(argv[4]), int(argv[5]), argv[6]
    try:
        mod = importlib.import_module(f"kv.props.{pid.lower()}")
        res = Shard(mod, tier, seed, shard, nshards).run()
    except BaseException:
        res = {"shard": shard, "harness_error": "shard crashed:\n" + traceback.format_exc(), "evaluations": 0,
               "nontrivial": [], "allcases": [], "labels": {}, "counters": {}, "samples": [], "known": {}, "excluded": {},
               "violations": [], "generated": 0, "enumerated": 0, "replayed": 0, "skipped_budget": 0, "wall": 0}
    with open(out, "w") as f:
        json.dump(res, f)


if __name__ == "__main__":
    main(sys.argv)
