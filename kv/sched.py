"""Deterministic cooperative scheduler: worker threads are real threads, but exactly one runs at any time; control is
handed over only at traced yield points (function entry anywhere under the repository's kingdon/ directory, and every
line inside the cache / codegen modules), and which thread continues is decided by a schedule (list of ints) supplied by
the caller (drawn by Hypothesis).  A run is therefore a pure function of (bodies, schedule) and shrinks/replays."""
import os
import sys
import threading

LINE_FILES = ("operator_dict.py", "codegen.py", "multivector.py", "algebra.py", "taperecorder.py")


class Sched:
    def __init__(self, schedule, repo, line_files=LINE_FILES):
        self.schedule = list(schedule)
        self.kdir = os.path.join(os.path.realpath(repo), "kingdon") + os.sep
        self.pos = 0
        self.gap = None
        self.sems = {}
        self.alive = []
        self.line_files = line_files
        self.switches = 0
        self.points = 0
        self.errors = {}
        self.results = {}

    def choose(self):
        """Schedule entries are either ints (0 = stay, n = switch to the n-th other thread; one entry per yield point) or
        [gap, target] pairs: let `gap` yield points pass, then switch to the target-th other thread."""
        if self.pos >= len(self.schedule):
            return 0      # schedule exhausted: never switch voluntarily
        e = self.schedule[self.pos]
        if isinstance(e, (list, tuple)):
            if self.gap is None:
                self.gap = e[0]
            if self.gap > 0:
                self.gap -= 1
                return 0
            self.gap = None
            self.pos += 1
            return e[1]
        self.pos += 1
        return e

    def yield_point(self, tid):
        self.points += 1
        if len(self.alive) <= 1:
            return
        c = self.choose()
        if c == 0:
            return
        others = [t for t in self.alive if t != tid]
        nxt = others[(c - 1) % len(others)]
        self.switches += 1
        self.sems[nxt].release()
        self.sems[tid].acquire()

    def tracer(self, tid):
        def local(frame, event, arg):
            if event == "line":
                self.yield_point(tid)
            return local

        def glob(frame, event, arg):
            fn = frame.f_code.co_filename
            if event == "call" and fn.startswith(self.kdir):
                self.yield_point(tid)
                if fn.endswith(self.line_files):
                    return local
            return None
        return glob

    def run(self, bodies, timeout=300):
        def worker(tid, body):
            self.sems[tid].acquire()
            sys.settrace(self.tracer(tid))
            try:
                self.results[tid] = body()
            except BaseException as e:      # reported to the caller, never swallowed
                self.errors[tid] = e
            finally:
                sys.settrace(None)
                self.alive.remove(tid)
                if self.alive:
                    self.sems[self.alive[0]].release()
        ths = []
        for tid, body in enumerate(bodies):
            self.sems[tid] = threading.Semaphore(0)
            self.alive.append(tid)
            ths.append(threading.Thread(target=worker, args=(tid, body), daemon=True))
        for t in ths:
            t.start()
        self.sems[0].release()
        for t in ths:
            t.join(timeout)
        if any(t.is_alive() for t in ths):
            raise RuntimeError("scheduler deadlock / timeout")
        return self.results
