"""Independent reference Clifford algebra over *generator names*.

Built only from the configuration the harness generated itself:
    config = {"sig": [...+1/-1/0...], "start": int|None, "basis": [names]|None}
Nothing here looks at kingdon's derived tables (signs, canon2bin, ...).

Conventions (how a user reads a basis):
  * generator names are single hex digits start, start+1, ...; the metric of the generator named n is
    sig[int(n, 16) - start];
  * default basis: bit j of a bitmask is generator start+j, a blade is named by its generators in ascending order,
    the canonical order is by grade and then lexicographic (= itertools.combinations order);
  * custom basis: the j-th grade-1 entry of the basis list owns bit j; the blade with a given generator *set* is the
    ordered product of the generators **in the spelling given by the basis list** (e31 = e3*e1);
  * start=None follows the documented default: 0 when exactly one generator is null (PGA), else 1.
"""
from itertools import combinations


def default_start(sig):
    return 0 if list(sig).count(0) == 1 else 1


def perm_parity(seq):
    """0 for even, 1 for odd: parity of the permutation that sorts seq (distinct, comparable items)."""
    seq = list(seq)
    inv = 0
    for i in range(len(seq)):
        for j in range(i + 1, len(seq)):
            if seq[i] > seq[j]:
                inv += 1
    return inv & 1


class RefAlgebra:
    def __init__(self, config):
        self.sig = [int(s) for s in config["sig"]]
        self.d = len(self.sig)
        start = config.get("start")
        basis = config.get("basis")
        if basis:
            vecs = [n[1:] for n in basis if len(n) == 2]
            self.start = min(int(v, 16) for v in vecs) if vecs else (default_start(self.sig) if start is None else start)
            self.gens = vecs                       # bit order
            self.names = list(basis)               # canonical order as given
        else:
            self.start = default_start(self.sig) if start is None else start
            self.gens = [format(self.start + j, "x") for j in range(self.d)]
            self.names = ["e" + "".join(c) for k in range(self.d + 1) for c in combinations(self.gens, k)]
        self.metric = {g: self.sig[int(g, 16) - self.start] for g in self.gens}
        self.pos = {g: j for j, g in enumerate(self.gens)}
        self.name2bin = {n: sum(1 << self.pos[c] for c in n[1:]) for n in self.names}
        self.bin2name = {b: n for n, b in self.name2bin.items()}
        assert len(self.bin2name) == 2 ** self.d, "harness generated an inadmissible basis"
        self.canon_keys = tuple(self.name2bin[n] for n in self.names)
        self.pss_key = 2 ** self.d - 1
        self._T = {}
        self._orient = {}

    # ---- words -------------------------------------------------------------------------------------------------
    def word_mul(self, w1, w2=""):
        """Product of two words of generator names -> (sign, tuple of generators sorted by bit position)."""
        w = list(w1) + list(w2)
        sign = 1
        changed = True
        while changed:
            changed = False
            for i in range(len(w) - 1):
                a, b = w[i], w[i + 1]
                if a == b:
                    sign *= self.metric[a]
                    del w[i:i + 2]
                    changed = True
                    break
                if self.pos[a] > self.pos[b]:
                    w[i], w[i + 1] = b, a
                    sign = -sign
                    changed = True
            if sign == 0:
                return 0, ()
        return sign, tuple(w)

    def orientation(self, key):
        """+1/-1: named canonical blade of bitmask `key` = orientation * (generators ascending by bit position)."""
        if key not in self._orient:
            s, _ = self.word_mul(self.bin2name[key][1:])
            self._orient[key] = s
        return self._orient[key]

    def spelled(self, spelling):
        """Blade spelled with distinct generators `spelling` (string) = sign * named canonical blade -> (sign, key)."""
        key = sum(1 << self.pos[c] for c in spelling)
        s, _ = self.word_mul(spelling)
        return s * self.orientation(key), key

    def T(self, I, J):
        """Sign (+1/-1/0) such that named_blade(I) * named_blade(J) = T * named_blade(I ^ J)."""
        k = (I, J)
        if k not in self._T:
            s, w = self.word_mul(self.bin2name[I][1:], self.bin2name[J][1:])
            if s:
                s2, key = self.spelled("".join(w))
                assert key == I ^ J
                s *= s2
            self._T[k] = s
        return self._T[k]

    def grade(self, key):
        return bin(key).count("1")

    def keys_of_grades(self, grades):
        gs = set(grades)
        return tuple(k for k in self.canon_keys if self.grade(k) in gs)

    def cayley_string(self, na, nb):
        I, J = self.name2bin[na], self.name2bin[nb]
        s = self.T(I, J)
        if s == 0:
            return "0"
        return ("-" if s < 0 else "") + self.bin2name[I ^ J]
