"""Independent exact field of rational functions over Q, used as a *generic coefficient ring*.

Q = N/D with N, D : dict{sorted tuple of variable names -> Fraction}.  No normalisation; equality by
cross-multiplication.  It is neither a sympy Expr nor a kingdon RationalPolynomial, so kingdon treats it as an
ordinary numeric coefficient and runs it through the numeric code path of a generated function.  Feeding
indeterminates as coefficients makes one execution of a generated function decide a polynomial (rational) identity
for every value of every coefficient in every commutative ring containing Q.
"""
from fractions import Fraction as F


def _padd(p, q):
    r = dict(p)
    for m, c in q.items():
        v = r.get(m, 0) + c
        if v == 0:
            r.pop(m, None)
        else:
            r[m] = v
    return r


def _pmul(p, q):
    r = {}
    for m1, c1 in p.items():
        for m2, c2 in q.items():
            m = tuple(sorted(m1 + m2))
            v = r.get(m, 0) + c1 * c2
            if v == 0:
                r.pop(m, None)
            else:
                r[m] = v
    return r


ONE = {(): F(1)}


class Q:
    __slots__ = ("n", "d")

    def __init__(self, n, d=None):
        self.n = n
        self.d = ONE if d is None else d

    @staticmethod
    def var(name):
        return Q({(name,): F(1)})

    @staticmethod
    def lift(x):
        if isinstance(x, Q):
            return x
        if isinstance(x, bool):
            return NotImplemented
        if isinstance(x, (int, F)):
            return Q({(): F(x)} if x else {})
        if isinstance(x, float):
            if x != x or x in (float("inf"), float("-inf")):
                raise ValueError("nonfinite")
            return Q({(): F(x)} if x else {})   # exact binary fraction
        return NotImplemented

    def __add__(s, o):
        o = Q.lift(o)
        if o is NotImplemented:
            return o
        if s.d is o.d or s.d == o.d:
            return Q(_padd(s.n, o.n), s.d)
        return Q(_padd(_pmul(s.n, o.d), _pmul(o.n, s.d)), _pmul(s.d, o.d))

    __radd__ = __add__

    def __neg__(s):
        return Q({m: -c for m, c in s.n.items()}, s.d)

    def __pos__(s):
        return s

    def __sub__(s, o):
        o = Q.lift(o)
        if o is NotImplemented:
            return o
        return s + (-o)

    def __rsub__(s, o):
        return (-s) + o

    def __mul__(s, o):
        o = Q.lift(o)
        if o is NotImplemented:
            return o
        return Q(_pmul(s.n, o.n), _pmul(s.d, o.d))

    __rmul__ = __mul__

    def __truediv__(s, o):
        o = Q.lift(o)
        if o is NotImplemented:
            return o
        if not o.n:
            raise ZeroDivisionError("Q division by zero")
        return Q(_pmul(s.n, o.d), _pmul(s.d, o.n))

    def __rtruediv__(s, o):
        return Q.lift(o) / s

    def __pow__(s, k):
        if not isinstance(k, int):
            raise TypeError("non-integer power of generic ring element")
        if k < 0:
            return (1 / s) ** (-k)
        r = Q(ONE)
        for _ in range(k):
            r = r * s
        return r

    def iszero(s):
        return not s.n

    def __eq__(s, o):
        o = Q.lift(o)
        if o is NotImplemented:
            return False
        return _pmul(s.n, o.d) == _pmul(o.n, s.d)

    def __ne__(s, o):
        return not s.__eq__(o)

    def __bool__(s):
        return bool(s.n)

    def __hash__(s):
        return 0

    def nterms(s):
        return len(s.n)

    def __repr__(s):
        def poly(p):
            if not p:
                return "0"
            return " + ".join((str(c) if not m else (("" if c == 1 else f"{c}*") + "*".join(m))) for m, c in sorted(p.items()))
        return f"Q[{poly(s.n)}]" if s.d == ONE else f"Q[({poly(s.n)})/({poly(s.d)})]"
