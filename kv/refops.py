"""Reference operators on dict{bitmask: value}, written from the grade-part definitions.

Generic over the coefficient ring (Fraction, kv.ring.Q, float, ...).  Parametrised by d and a sign table T(I, J)
(normally RefAlgebra.T).  Shares no code with kingdon.
"""
from fractions import Fraction as F


def pc(k):
    return bin(k).count("1")


def clean(m):
    return {k: v for k, v in m.items() if not _iszero(v)}


def _iszero(v):
    try:
        return bool(v == 0)
    except Exception:
        return False


class R:
    def __init__(self, d, T):
        self.d = d
        self.T = T
        self.pss = 2 ** d - 1

    # -- products ------------------------------------------------------------------------------------------------
    def prod(self, a, b, keep=None):
        out = {}
        for ka, va in a.items():
            for kb, vb in b.items():
                s = self.T(ka, kb)
                if not s:
                    continue
                ko = ka ^ kb
                if keep is not None and not keep(pc(ka), pc(kb), pc(ko)):
                    continue
                term = va * vb if s > 0 else -(va * vb)
                out[ko] = out[ko] + term if ko in out else term
        return out

    def gp(self, a, b):
        return self.prod(a, b)

    def op(self, a, b):
        return self.prod(a, b, lambda r, s, o: o == r + s)

    def ip(self, a, b):
        return self.prod(a, b, lambda r, s, o: o == abs(r - s))

    def lc(self, a, b):
        return self.prod(a, b, lambda r, s, o: o == s - r)

    def rc(self, a, b):
        return self.prod(a, b, lambda r, s, o: o == r - s)

    def sp(self, a, b):
        return self.prod(a, b, lambda r, s, o: o == 0)

    # -- linear --------------------------------------------------------------------------------------------------
    def add(self, a, b):
        out = dict(a)
        for k, v in b.items():
            out[k] = out[k] + v if k in out else v
        return out

    def neg(self, a):
        return {k: -v for k, v in a.items()}

    def sub(self, a, b):
        out = dict(a)
        for k, v in b.items():
            out[k] = out[k] - v if k in out else -v
        return out

    def scale(self, a, c):
        return {k: v * c for k, v in a.items()}

    def cp(self, a, b):
        return self.scale(self.sub(self.gp(a, b), self.gp(b, a)), F(1, 2))

    def acp(self, a, b):
        return self.scale(self.add(self.gp(a, b), self.gp(b, a)), F(1, 2))

    # -- involutions ---------------------------------------------------------------------------------------------
    def reverse(self, a):
        return {k: (-v if (pc(k) * (pc(k) - 1) // 2) % 2 else v) for k, v in a.items()}

    def involute(self, a):
        return {k: (-v if pc(k) % 2 else v) for k, v in a.items()}

    def conjugate(self, a):
        return {k: (-v if (pc(k) * (pc(k) + 1) // 2) % 2 else v) for k, v in a.items()}

    def grade(self, a, gs):
        gs = set(gs)
        return {k: v for k, v in a.items() if pc(k) in gs}

    # -- composites ----------------------------------------------------------------------------------------------
    def sw(self, a, b):
        return self.gp(self.gp(a, b), self.reverse(a))

    def proj(self, a, b):
        return self.gp(self.ip(a, b), self.reverse(b))

    def normsq(self, a):
        return self.gp(a, self.reverse(a))

    # -- duality -------------------------------------------------------------------------------------------------
    # hodge is *defined* by the axiom  E ^ hodge(E) = pss  for basis blades (wedge of disjoint blades has no metric
    # factor, so T(E, E^c) is +-1 and hodge(E) = T(E, E^c) * E^c).
    def hodge(self, a):
        return {self.pss ^ k: (v if self.T(k, self.pss ^ k) > 0 else -v) for k, v in a.items()}

    def unhodge(self, a):
        return {self.pss ^ k: (v if self.T(self.pss ^ k, k) > 0 else -v) for k, v in a.items()}

    def rp(self, a, b):
        return self.unhodge(self.op(self.hodge(a), self.hodge(b)))

    def pss_inv(self):
        s = self.T(self.pss, self.pss)
        if s == 0:
            return None
        return {self.pss: F(s)}   # pss*pss = s  =>  pss^-1 = s*pss  (s = +-1)

    def polarity(self, a):
        pi = self.pss_inv()
        if pi is None:
            return None
        return self.gp(a, pi)

    def unpolarity(self, a):
        return self.gp(a, {self.pss: F(1)})

    # -- powers / series -----------------------------------------------------------------------------------------
    def one(self):
        return {0: F(1)}

    def power(self, a, n, mul=None):
        mul = mul or self.gp
        out = self.one()
        for _ in range(n):
            out = mul(out, a)
        return out

    def outerexp_terms(self, a):
        """[1, a, a^a/2!, ...] up to grade d (finite)."""
        terms = [self.one(), dict(a)]
        fact = 1
        for j in range(2, self.d + 1):
            fact *= j
            w = self.power(a, j, self.op)
            terms.append(self.scale(w, F(1, fact)))
        return terms

    # -- exact inverse by linear algebra -------------------------------------------------------------------------
    def matrix(self, a, zero=F(0)):
        """Left-multiplication matrix M[o][j] = coefficient of blade o in a * e_j."""
        n = 2 ** self.d
        M = [[zero] * n for _ in range(n)]
        for ka, va in a.items():
            for j in range(n):
                s = self.T(ka, j)
                if s:
                    M[ka ^ j][j] = M[ka ^ j][j] + (va if s > 0 else -va)
        return M

    def inv(self, a):
        """Two-sided inverse over an exact field, or None when a is singular (Gauss-Jordan on left mult. matrix;
        in a finite-dimensional associative algebra a right inverse is the two-sided inverse)."""
        n = 2 ** self.d
        M = [row[:] + [F(1) if i == 0 else F(0)] for i, row in enumerate(self.matrix(a))]
        r = 0
        for c in range(n):
            p = next((i for i in range(r, n) if M[i][c] != 0), None)
            if p is None:
                return None
            M[r], M[p] = M[p], M[r]
            pv = M[r][c]
            M[r] = [x / pv for x in M[r]]
            for i in range(n):
                if i != r and M[i][c] != 0:
                    f = M[i][c]
                    M[i] = [x - f * y for x, y in zip(M[i], M[r])]
            r += 1
        return clean({j: M[j][n] for j in range(n)})


def eq(a, b):
    """Element equality: explicit zeros removed on both sides."""
    return clean(a) == clean(b)
