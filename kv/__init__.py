"""kv -- property-based verification machinery for tBuLi/kingdon (see /verif/DESIGN.md)."""
