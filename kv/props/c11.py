"""C11 -- registered (compiled) expressions equal direct evaluation."""
from __future__ import annotations
import os
from fractions import Fraction as F
from itertools import permutations

from hypothesis import strategies as st

from ..core import Violation, Info, frac, HarnessError
from ..refalg import RefAlgebra
from .. import strategies as S
from .. import kd

ID = "C11"
INFIX = ["*", "|", "^", "&", ">>", "@", "+", "-", "/"]
METH2 = ["gp", "ip", "sp", "lc", "rc", "op", "rp", "sw", "proj", "cp", "acp", "add", "sub", "div"]
UNSYM = ["~", "-"]
METH1 = ["reverse", "involute", "conjugate", "inv", "normsq", "dual", "undual", "hodge", "unhodge", "polarity", "unpolarity",
         "norm", "normalized", "dual:hodge", "undual:hodge", "dual:polarity", "undual:polarity", "undual:hodge", "undual:polarity"]
NUMFORMS = ["t+n", "n+t", "t-n", "n-t", "t*n", "n*t", "t/n"]
OTHERFORMS = ["n|t", "n^t", "n/t", "t**0.5", "frac+t", "t*frac", "complex*t", "n>>t", "t.sqrt()", "t.outerexp()"]
RULE = ("case = (algebra config d<=3 quick (d=4 sampled in thorough), a generated expression program over 1-3 arguments "
        "rendered to Python source, ordered key tuples and Fraction values for every argument incl. non-canonical orders, "
        "registration mode numeric / symbolic=True). Grammar 'must equal' = infix * | ^ & >> @ + - / and the 14 method forms "
        "between multivector-valued subexpressions, ~ and unary -, 13 unary methods (involutions, inv, normsq, duals, norm, "
        "normalized), grade(...) with grades in 0..d, the seven number forms with int/float on either side, integer powers "
        "-3..3, coefficient access t.eXY with canonical / permuted / absent spellings used as factor or summand, and calls of "
        "previously registered functions. Grammar 'other use' (may raise, must not differ) = number on the left of | ^ / >>, "
        "t**0.5, Fraction / complex constants, sqrt, outerexp. Oracle: the same function called on plain multivectors. "
        "Non-trivial = >= 2 operator nodes AND at least one of {number operand, power, coefficient access, nested registered "
        "call}. distinct = hash(program source, key patterns, mode).")
ASSUMPTIONS = [
    "oracle: the plain Python function f(*args) evaluated with kingdon's ordinary operators (C02-C08 decide those); if the "
    "plain evaluation raises, the registered forms may raise anything and the case is counted as 'plain-raised'",
    "must-equal programs: alg.register(f)(*args) and alg.register(symbolic=True)(f)(*args) must return the same element; "
    "other-use programs may raise but must not return a different element",
    "exact comparison for Fractions; 1e-9 relative once floats enter (float constants, norm/normalized/sqrt)",
    "symbolic=True registration only for programs with <= 3 operator nodes and arguments of <= 4 blades (cost of symbolic "
    "optimisation), numeric registration up to depth 4",
]
REQUIRED_LABELS = {"order:noncanonical": 0.1, "has:number": 0.1, "has:pow": 0.05, "has:coef": 0.05, "has:call": 0.05, "mode:symbolic": 0.05}


def budget(tier):
    n = int(os.environ.get("KV_EXAMPLES", 0)) or (8000 if tier == "quick" else 40000)
    return {"examples": n, "shards": 16, "wall": 100 if tier == "quick" else 1200}


# ---- program generation ---------------------------------------------------------------------------------------------
@st.composite
def _expr(draw, depth, nargs, d, ctx):
    """Expression tree (JSON lists).  ctx: dict with 'other' flag (allow other-use nodes) and 'ncallees'."""
    if depth <= 0 or draw(st.integers(0, 5)) == 0:
        return ["arg", draw(st.integers(0, nargs - 1))]
    kinds = ["bin", "bin", "bin", "meth2", "meth2", "un", "meth1", "meth1", "grade", "num", "num", "pow", "coef"]
    if ctx["ncallees"]:
        kinds += ["call", "call"]
    if ctx["other"]:
        kinds += ["other"] * 3
    k = draw(st.sampled_from(kinds))
    sub = lambda: draw(_expr(depth - 1, nargs, d, ctx))
    if k == "bin":
        return ["bin", draw(st.sampled_from(INFIX)), sub(), sub()]
    if k == "meth2":
        return ["meth2", draw(st.sampled_from(METH2)), sub(), sub()]
    if k == "un":
        return ["un", draw(st.sampled_from(UNSYM)), sub()]
    if k == "meth1":
        return ["meth1", draw(st.sampled_from(METH1)), sub()]
    if k == "grade":
        gs = sorted(draw(st.sets(st.integers(0, d), min_size=0, max_size=d + 1)))
        return ["grade", sub(), gs, draw(st.sampled_from(["varargs", "tuple"]))]
    if k == "num":
        n = draw(st.sampled_from([2, 3, -1, 5, 0.5, -2.0, 1.25, 0, 1, 0.123456789, 1 / 6, -2.718281828459045]))
        return ["num", draw(st.sampled_from(NUMFORMS)), sub(), n]
    if k == "pow":
        return ["pow", sub(), draw(st.sampled_from([-3, -2, -1, 0, 1, 2, 3, 2, -1]))]
    if k == "coef":
        key = draw(st.integers(0, 2 ** d - 1))
        bits = [j for j in range(d) if key >> j & 1]
        sp = list(draw(st.permutations(bits)))
        return ["coef", sub(), sp, draw(st.sampled_from(["c*t", "t*c", "t+c", "c+t", "t-c"])), sub()]
    if k == "call":
        j = draw(st.integers(0, ctx["ncallees"] - 1))
        return ["call", j, [sub(), sub()]]
    return ["other", draw(st.sampled_from(OTHERFORMS)), sub()]


CALLEES = ["def h0(a, b): return a * b - (b | a)", "def h1(a, b): return (a >> b) + a"]


@st.composite
def _cases(draw, tier):
    dmax = 3 if tier == "quick" else 4
    cfg = draw(S.configs(1, dmax, custom=0.15, named=False, dweights=[1, 2, 2, 3, 3, 3] + [4] * (dmax >= 4)))
    d = len(cfg["sig"])
    nargs = draw(st.integers(1, 3))
    other = draw(st.integers(0, 5)) == 0
    ncallees = draw(st.sampled_from([0, 0, 1, 2]))
    depth = draw(st.sampled_from([1, 2, 2, 3, 3, 4]))
    tree = draw(_expr(depth, nargs, d, {"other": other, "ncallees": ncallees}))
    if tree[0] == "arg":
        tree = ["bin", "*", tree, ["arg", draw(st.integers(0, nargs - 1))]]
    cap = 4 if d >= 3 else None
    args = [draw(S.operand(d, classes=["single", "sparse", "sparse", "puregrade", "puregrade", "perm", "perm", "gradeblock"],
                           max_len=cap, min_len=1, zero_prob=0.03)) for _ in range(nargs)]
    return {"cfg": cfg, "tree": tree, "nargs": nargs, "args": args, "ncallees": ncallees,
            "symbolic": draw(st.integers(0, 3)) == 0, "callee_sym": draw(st.booleans()), "wrapper": draw(st.integers(0, 3)) == 0,
            "cse": draw(st.integers(0, 3)) != 0}


def cases(tier):
    return _cases(tier)


def _depth2_trees(d):
    """All depth-1 trees over two arguments for the enumerated tier (one operator node on argument leaves)."""
    A, B = ["arg", 0], ["arg", 1]
    for op in INFIX:
        yield ["bin", op, A, B]
    for m in METH2:
        yield ["meth2", m, A, B]
    for u in UNSYM:
        yield ["un", u, A]
    for m in METH1:
        yield ["meth1", m, A]
    for form in NUMFORMS:
        for n in (3, 0.5):
            yield ["num", form, A, n]
    for k in (-2, -1, 0, 1, 2, 3):
        yield ["pow", A, k]
    for g in range(d + 1):
        yield ["grade", A, [g], "varargs"]
    yield ["grade", A, list(range(0, d + 1, 2)), "tuple"]


def enumerate_cases(tier):
    """Every single-operator program, then (thorough) every composition of two operators, on fixed argument patterns."""
    cfgs = [{"sig": [1, 1], "start": None, "basis": None}, {"sig": [0, 1, 1], "start": None, "basis": None},
            {"sig": [1, -1, 1], "start": None, "basis": None}]
    for cfg in cfgs:
        d = len(cfg["sig"])
        n = 2 ** d
        pats = [
            [{"cls": "perm", "keys": [n - 1, 1, 2, 0][:min(4, n)], "vals": ["2", "3", "-1/2", "5"][:min(4, n)]},
             {"cls": "sparse", "keys": [1, 2, 3], "vals": ["1", "-2", "1/3"]}],
            [{"cls": "puregrade", "keys": [2, 1], "vals": ["3", "-2"]}, {"cls": "perm", "keys": [3, 0, 1], "vals": ["1/2", "2", "-1"]}],
        ]
        singles = list(_depth2_trees(d))
        for args in pats:
            for t in singles:
                for sym in (False, True):
                    yield {"cfg": cfg, "tree": t, "nargs": 2, "args": args, "ncallees": 0, "symbolic": sym, "callee_sym": False}
        if tier == "thorough":
            outer = [t for t in singles]
            for args in pats[:1]:
                for t1 in singles:
                    for t2 in outer:
                        # substitute t1 for argument 0 of t2
                        comp = _subst(t2, t1)
                        yield {"cfg": cfg, "tree": comp, "nargs": 2, "args": args, "ncallees": 0, "symbolic": False, "callee_sym": False}

    # every spelling of every blade of grade >= 2 read as a coefficient inside a registered function (d = 3 and d = 4): even
    # permutations other than the identity exist from grade 3 on only and are 1 in 3 / 11 in 24 of the random spellings of
    # one blade that the random trees rarely pick at all (seeded C11-11: every reordered spelling negated)
    import itertools
    for cfg in ({"sig": [0, 1, 1], "start": None, "basis": None}, {"sig": [1, 1, 1, -1], "start": None, "basis": None}):
        d = len(cfg["sig"])
        n = 2 ** d
        dense = {"cls": "perm", "keys": list(range(n - 1, -1, -1)), "vals": [str(2 * i + 3) for i in range(n)]}
        other = {"cls": "sparse", "keys": [1, 2], "vals": ["1", "-2"]}
        for key in range(n):
            bits = [j for j in range(d) if key >> j & 1]
            if len(bits) < 2:
                continue
            for sp in itertools.permutations(bits):
                for form, sym in (("c*t", False), ("t*c", True)):
                    yield {"cfg": cfg, "tree": ["coef", ["arg", 0], list(sp), form, ["arg", 1]], "nargs": 2, "args": [dense, other],
                           "ncallees": 0, "symbolic": sym, "callee_sym": False}


def _subst(tree, repl):
    if tree[0] == "arg":
        return repl if tree[1] == 0 else tree
    return [(_subst(x, repl) if isinstance(x, list) and x and isinstance(x[0], str) and x[0] in
             ("arg", "bin", "meth2", "un", "meth1", "grade", "num", "pow", "coef", "call", "other") else x) for x in tree]


# ---- rendering ------------------------------------------------------------------------------------------------------
def render(tree, gens):
    k = tree[0]
    r = lambda t: render(t, gens)
    if k == "arg":
        return "abc"[tree[1]]
    if k == "bin":
        return f"({r(tree[2])} {tree[1]} {r(tree[3])})"
    if k == "meth2":
        return f"{r(tree[2])}.{tree[1]}({r(tree[3])})"
    if k == "un":
        return f"({tree[1]}{r(tree[2])})"
    if k == "meth1":
        if ":" in tree[1]:
            m_, kind_ = tree[1].split(":")
            # explicit duality kind, as keyword (dual) or positionally (undual)
            return f"{r(tree[2])}.{m_}(kind='{kind_}')" if m_ == "dual" else f"{r(tree[2])}.{m_}('{kind_}')"
        return f"{r(tree[2])}.{tree[1]}()"
    if k == "grade":
        gs = tree[2]
        inner = ", ".join(str(g) for g in gs) if tree[3] == "varargs" else "(" + ", ".join(str(g) for g in gs) + ("," if len(gs) == 1 else "") + ")"
        return f"{r(tree[1])}.grade({inner})"
    if k == "num":
        n = repr(tree[3])
        t = r(tree[2])
        return "(" + {"t+n": f"{t} + {n}", "n+t": f"{n} + {t}", "t-n": f"{t} - {n}", "n-t": f"{n} - {t}", "t*n": f"{t} * {n}",
                      "n*t": f"{n} * {t}", "t/n": f"{t} / {n}"}[tree[1]] + ")"
    if k == "pow":
        return f"({r(tree[1])} ** {tree[2]})" if tree[2] >= 0 else f"({r(tree[1])} ** ({tree[2]}))"
    if k == "coef":
        c = f"{r(tree[1])}.e{''.join(gens[j] for j in tree[2])}"
        t = r(tree[4])
        return "(" + {"c*t": f"{c} * {t}", "t*c": f"{t} * {c}", "t+c": f"{t} + {c}", "c+t": f"{c} + {t}", "t-c": f"{t} - {c}"}[tree[3]] + ")"
    if k == "call":
        return f"H{tree[1]}({r(tree[2][0])}, {r(tree[2][1])})"
    if k == "other":
        t = r(tree[2])
        return "(" + {"n|t": f"3 | {t}", "n^t": f"2 ^ {t}", "n/t": f"2 / {t}", "t**0.5": f"{t} ** 0.5", "frac+t": f"FR + {t}",
                      "t*frac": f"{t} * FR", "complex*t": f"(1+2j) * {t}", "n>>t": f"2 >> {t}", "t.sqrt()": f"{t}.sqrt()",
                      "t.outerexp()": f"{t}.outerexp()"}[tree[1]] + ")"
    raise KeyError(k)


def features(tree, acc=None):
    acc = acc if acc is not None else {"nodes": 0, "number": 0, "pow": 0, "coef": 0, "call": 0, "other": 0, "negpow": 0}
    k = tree[0]
    if k == "arg":
        return acc
    acc["nodes"] += 1
    if k == "num":
        acc["number"] += 1
    if k == "pow":
        acc["pow"] += 1
        if tree[2] < 0:
            acc["negpow"] += 1
    if k == "coef":
        acc["coef"] += 1
    if k == "call":
        acc["call"] += 1
    if k == "other":
        acc["other"] += 1
    for x in tree[1:]:
        if isinstance(x, list) and x and isinstance(x[0], str):
            features(x, acc)
        elif isinstance(x, list):
            for y in x:
                if isinstance(y, list) and y and isinstance(y[0], str):
                    features(y, acc)
    return acc


def _run(fn, args):
    try:
        return "ok", fn(*args)
    except Exception as e:
        return "exc", f"{type(e).__name__}: {str(e)[:160]}"


def _elem(x, what):
    if isinstance(x, (list, tuple)):
        raise HarnessError(f"{what} returned a sequence")
    return kd.to_dict(x, op="register")


def evaluate(case):
    cfg = case["cfg"]
    ref = RefAlgebra(cfg)
    d = ref.d
    src_body = render(case["tree"], ref.gens)
    params = ", ".join("abc"[:case["nargs"]])
    src = f"def f({params}):\n    return {src_body}\n"
    feats = features(case["tree"])
    must_equal = feats["other"] == 0

    def build(alg, mode):
        """mode: 'plain' | 'numeric' | 'symbolic' -> callable taking the argument multivectors of that algebra."""
        glob = {"FR": F(1, 2)}
        for j in range(case["ncallees"]):
            g2 = {}
            exec(CALLEES[j], g2)
            h = g2[f"h{j}"]
            if mode == "plain":
                glob[f"H{j}"] = h
            else:
                glob[f"H{j}"] = alg.register(h, symbolic=(mode == "symbolic" and case["callee_sym"]))
        exec(src, glob)
        f = glob["f"]
        if mode == "plain":
            return f
        return alg.register(f, symbolic=(mode == "symbolic"))

    def args_for(alg):
        return [kd.mk(alg, a["keys"], [frac(v) for v in a["vals"]]) for a in case["args"]]

    alg0 = kd.build_algebra(cfg)
    st0, plain = _run(build(alg0, "plain"), args_for(alg0))
    noncanon = any(not S.is_canonical(a["keys"]) for a in case["args"])
    labels = [f"d:{d}", "order:noncanonical" if noncanon else "order:canonical", "grammar:must-equal" if must_equal else "grammar:other-use"]
    if case.get("wrapper"):
        labels.append("opt:wrapper")
    for f_ in ("number", "pow", "coef", "call"):
        if feats[f_]:
            labels.append(f"has:{f_}")
    counters = {}
    key = [cfg["sig"], cfg.get("start"), cfg.get("basis"), src_body, [a["keys"] for a in case["args"]], case["symbolic"], case["ncallees"]]
    if st0 == "exc":
        counters["plain-raised:" + plain.split(":")[0]] = 1
        return Info(False, labels + ["plain-raised"], key, counters)
    if not isinstance(plain, kd.MultiVector) and isinstance(plain, (list, tuple)):
        return Info(False, labels + ["plain-sequence"], key, counters)
    pe = _elem(plain, "plain f")
    modes = ["numeric"]
    small = feats["nodes"] <= 3 and all(len(a["keys"]) <= 4 for a in case["args"])
    if case["symbolic"] and small:
        modes.append("symbolic")
        labels.append("mode:symbolic")
    for mode in modes:
        # own algebra per mode (C09 is about shared histories); options drawn per case: wrapper / cse must not matter
        alg = kd.build_algebra(cfg, wrapper=bool(case.get("wrapper")), cse=case.get("cse", True))
        try:
            reg = build(alg, mode)
        except Exception as e:
            raise Violation("registered-equals-plain", mode, f"alg.register raised {type(e).__name__}: {e}\n{src}", exc=type(e).__name__)
        st1, got = _run(reg, args_for(alg))
        if st1 == "exc":
            if must_equal:
                raise Violation("registered-equals-plain", mode, f"registered ({mode}) function raised {got} but the plain function "
                                f"returns {kd.show(pe)}\n{src}argument keys {[a['keys'] for a in case['args']]}",
                                exc=got.split(":")[0], source=src)
            counters[f"other-use-raised:{mode}"] = 1
            continue
        ge = _elem(got, f"registered {mode}")
        ok, why = kd.elem_equal(ge, pe)
        if not ok:
            raise Violation("registered-equals-plain" if must_equal else "other-use-never-differs", mode,
                            f"registered ({mode}) result differs from plain evaluation: {why}\n{src}argument keys "
                            f"{[a['keys'] for a in case['args']]} values {[a['vals'] for a in case['args']]}",
                            observed=kd.show(ge), expected=kd.show(pe), source=src)
        if mode == "numeric" and must_equal:
            # other functions registered later under the SAME Python names (a redefinition, a closure from the same factory) and
            # compiled for the same key patterns must not change what the first ones compute
            try:
                for nm, nargs_ in [("f", case["nargs"])] + [(f"h{j}", 2) for j in range(case["ncallees"])]:
                    g3 = {}
                    exec(f"def {nm}({', '.join('abc'[:nargs_])}):\n    return a - a * 3\n", g3)
                    decoy = alg.register(g3[nm])
                    decoy(*(args_for(alg) * 2)[:nargs_])
            except Exception as e:
                counters["decoy-raised:" + type(e).__name__] = 1
            st2, got2 = _run(reg, args_for(alg))
            if st2 == "exc":
                raise Violation("registered-equals-plain", mode, f"after registering other functions under the same names the registered "
                                f"function raised {got2}\n{src}", exc=got2.split(":")[0], source=src)
            ok, why = kd.elem_equal(_elem(got2, "registered numeric"), pe)
            if not ok:
                raise Violation("registered-equals-plain", mode, f"after other functions were registered under the same Python names "
                                f"(f, h0, h1) and compiled for the same key patterns, the first registered function returns a different "
                                f"result: {why}\n{src}", source=src)
    nontrivial = feats["nodes"] >= 2 and (feats["number"] or feats["pow"] or feats["coef"] or feats["call"])
    return Info(bool(nontrivial), labels, key, counters, sample={"source": src})


def _nodes(tree):
    if not (isinstance(tree, list) and tree and isinstance(tree[0], str)):
        return
    yield tree
    for x in tree[1:]:
        if isinstance(x, list):
            if x and isinstance(x[0], str):
                yield from _nodes(x)
            else:
                for y in x:
                    yield from _nodes(y)


def _pred_symbolic_norm(case, v, **_):
    """register(symbolic=True) of a program that applies norm()/normalized(): the built-in RationalPolynomial has no
    fractional powers, sqrt cannot be traced."""
    return (v.op == "symbolic" and v.data.get("exc") in ("TypeError", "NameError")
            and any(n[0] == "meth1" and n[1] in ("norm", "normalized") for n in _nodes(case["tree"])))


def _pred_symbolic_coef_left(case, v, **_):
    """register(symbolic=True): a coefficient (RationalPolynomial) as LEFT operand of * or + with a multivector on the right is
    swallowed by RationalPolynomial.__mul__/__add__ (wraps the multivector as a coefficient) -> AttributeError/TypeError, or
    KeyError when the swallowed "polynomial" is then raised to the power 0 (power_supply has no chain for 0)."""
    return (v.op == "symbolic" and v.data.get("exc") in ("AttributeError", "TypeError", "SympifyError", "KeyError")
            and any(n[0] == "coef" and n[3] in ("c*t", "c+t") for n in _nodes(case["tree"])))


FINDING_PREDICATES = {"symbolic_norm": _pred_symbolic_norm, "symbolic_coef_left": _pred_symbolic_coef_left}

MANIFEST_META = {
    "technique": "grammar-based program generation (Hypothesis recursive strategy + enumeration of all single-operator and, in "
                 "thorough, all two-operator programs) with a differential oracle: registered/compiled vs plain evaluation",
    "level_text": "Random expression programs over the README operator table (infix and method forms, duals, norm, grade selection, "
                  "numbers on either side, integer powers of either sign, coefficient access with any spelling, nested registered "
                  "calls) are rendered to Python source and evaluated three ways - plain, alg.register, alg.register(symbolic=True) - "
                  "on arguments with arbitrary key order; results must be the same element. A second grammar of 'other uses' checks "
                  "'may raise, never differs'. All single-operator programs are enumerated every run."
                  " Duality with an explicit kind (keyword and positional) and float constants with nine significant digits are part of the grammar.",
    "level_note": "Oracle is kingdon's own plain evaluation (decided by C02-C08). symbolic=True only for small programs (cost). d<=3 "
                  "quick, d<=4 thorough.",
}
