"""C12 -- symbolic evaluation commutes with numeric evaluation."""
from __future__ import annotations
import os
from fractions import Fraction as F

from hypothesis import strategies as st

from ..core import Violation, Info, frac, fstr
from ..refalg import RefAlgebra
from ..refops import pc
from .. import strategies as S
from .. import kd

ID = "C12"
BIN = ["gp", "op", "ip", "lc", "rc", "sp", "cp", "acp", "add", "sub", "rp", "sw", "proj", "div"]
UN = ["neg", "reverse", "involute", "conjugate", "normsq", "hodge", "unhodge", "inv", "polarity", "outerexp", "norm", "normalized"]
NAMES = ["x10", "x2", "X3", "a", "B", "x1", "z", "Y", "x20", "b1", "A1", "k", "c12", "c2", "W", "m"]
FORMS = ["symbol", "symbol", "string", "expr+1", "expr*2", "hidden0+s", "num", "num", "float", "sympy-number", "symbolsub"]


def _psym():
    """A Symbol subclass (like symfit's Parameter, the use case of the `symbolcls` option): sympy orders symbols of different
    classes by class first, names second."""
    import sympy
    global _PSYM
    try:
        return _PSYM
    except NameError:
        class Parameter(sympy.Symbol):
            pass
        _PSYM = Parameter
        return _PSYM
RULE = ("case = (algebra config d<=3 quick / d<=4 thorough, operator from 14 binary + 10 unary incl. inverse and division, "
        "ordered key tuples <= 5 blades (<= 3 for inv/div/sw/proj), and per coefficient a form: sympy Symbol, the same given "
        "as a string, s+1, 2*s, a Fraction or a float; symbol names drawn from a pool whose name order differs from creation "
        "and key order (x10 < x2, upper/lower case); three rational valuations). For each valuation the numeric operands are "
        "evaluated first (a ZeroDivisionError there discards the valuation); then the symbolic result is compared (i) after "
        "sympy substitution, exactly, (ii) called with positional values in name order, (iii) called with keywords. "
        "Non-trivial = >= 2 symbols AND result with >= 2 blades AND (a blade was dropped by the simplification OR operands mix "
        "symbolic and numeric coefficients). distinct = hash(config, op, keys, forms, names).")
ASSUMPTIONS = [
    "sympy subs / Rational arithmetic is trusted (double evaluation by subs and by call mitigates); a blade dropped from the "
    "symbolic result must be zero in the numeric result at three independent rational valuations (Schwartz-Zippel, stated)",
    "numeric reference is kingdon's own operator on numeric operands (decided by C02-C08)",
    "exact comparison after subs for Fraction/int coefficients; 1e-9 relative for calls (generated code prints rationals as "
    "float divisions) and whenever a float coefficient occurs",
    "size caps are cost limits of sympy.simplify",
]
REQUIRED_LABELS = {"mix:symbolic+numeric": 0.1, "dropped-blade": 0.01, "form:string": 0.05, "chain-of-operations": 0.1}


def budget(tier):
    n = int(os.environ.get("KV_EXAMPLES", 0)) or (7200 if tier == "quick" else 30000)
    return {"examples": n, "shards": 16, "wall": 100 if tier == "quick" else 1200}


@st.composite
def _cases(draw, tier):
    dmax = 3 if tier == "quick" else 4
    cfg = draw(S.configs(1, dmax, custom=0.1, dweights=[1, 2, 2, 3, 3, 3] + [4] * (dmax >= 4)))
    d = len(cfg["sig"])
    kind = draw(st.sampled_from(["bin", "bin", "un"]))
    op = draw(st.sampled_from(BIN if kind == "bin" else UN))
    heavy = op in ("inv", "div", "sw", "proj", "outerexp")
    cap = 3 if heavy else 5
    names = [f"q{i}" for i in range(40, 0, -1)] + list(draw(st.permutations(NAMES)))     # pop() takes from NAMES first; spare names for big graded operands
    graded = draw(st.integers(0, 5)) == 0 and not heavy and op not in ("norm", "normalized")
    if graded:
        cfg["basis"] = None

    def operand():
        if graded:
            # graded mode: complete grades; symbolic coefficients next to explicit zeros (alg.vector([x, 0, 0]))
            o = draw(S.operand(d, classes=["gradeblock"], max_len=None, min_len=1, zero_prob=0.0))
            if len(o["keys"]) > 7:
                o = {"keys": o["keys"][:1] if S.pc(o["keys"][0]) == 0 else o["keys"], "vals": o["vals"]}
                o["vals"] = o["vals"][:len(o["keys"])]
            forms = [draw(st.sampled_from(["symbol", "symbol", "zero", "zero", "num", "expr+1"])) for _ in o["keys"]]
            vals = ["0" if f == "zero" else v for f, v in zip(forms, o["vals"])]
            forms = ["num" if f == "zero" else f for f in forms]
            return {"keys": o["keys"], "vals": vals, "forms": forms, "names": [names.pop() for _ in o["keys"]]}
        if op in ("norm", "normalized"):
            # a vector / blade with symbolic coefficients (norm of a single symbolic blade is sqrt(a**2): sign matters)
            idx = draw(st.lists(st.integers(0, d - 1), unique=True, min_size=1, max_size=min(d, 2)))
            ks = [1 << i for i in idx]
            return {"keys": ks, "vals": [draw(S.fracs(nonzero=True)) for _ in ks], "forms": [draw(st.sampled_from(["symbol", "symbol", "num"])) for _ in ks],
                    "names": [names.pop() for _ in ks]}
        o = draw(S.operand(d, classes=["single", "sparse", "sparse", "puregrade", "perm", "gradeblock"], max_len=cap, min_len=1, zero_prob=0.0))
        forms = [draw(st.sampled_from(FORMS)) for _ in o["keys"]]
        return {"keys": o["keys"], "vals": o["vals"], "forms": forms, "names": [names.pop() for _ in o["keys"]]}
    a = operand()
    b = operand() if kind == "bin" else None
    if b is not None and draw(st.integers(0, 3)) == 0:
        # the same symbolic element on both sides (x*x, x^x, x.cp(x) ...): coefficients cancel identically, which is what the
        # automatic simplification has to recognise
        b = {"keys": list(a["keys"]), "vals": list(a["vals"]), "forms": list(a["forms"]), "names": list(a["names"])}
        if draw(st.booleans()) and len(b["keys"]) > 1 and not graded:
            for f_ in ("keys", "vals", "forms", "names"):
                b[f_] = b[f_][::-1]
    if not any(f not in ("num", "float") for f in a["forms"] + (b["forms"] if b else [])):
        a["forms"][0] = "symbol"
    vals = [[draw(S.fracs(nonzero=True)) for _ in range(16)] for _ in range(3)]
    return {"cfg": cfg, "op": op, "a": a, "b": b, "valuations": vals, "graded": graded}


PROGS = {
    "a+b*c*b": lambda a, b, c: a + b * c * b,
    "a+(b>>c)": lambda a, b, c: a + (b >> c),
    "(a*b)*c-a": lambda a, b, c: (a * b) * c - a,
    "sqrt(a*b)": lambda a, b, c: (a * b).sqrt(),
    "norm(a*b)": lambda a, b, c: (a * b).norm(),
    "a+b*b+c*c": lambda a, b, c: a + b * b + c * c,
    "inv(a*b-b*a+c)": lambda a, b, c: (a * b - b * a + c).inv(),
    "c/(a*b-b*a+c)": lambda a, b, c: c / (a * b - b * a + c),
}
TEMP_NAMES = ["x0", "x1", "x2", "x3", "x4", "x5", "_Dummy_1", "x"]


@st.composite
def _prog_cases(draw, tier):
    """Chains of three or more operations on up to three symbolic operands (results fed straight back in), with symbol names
    that look like the temporaries a common-subexpression pass invents (x0, x1, ...)."""
    dmax = 3 if tier == "quick" else 4
    cfg = draw(S.configs(1, dmax, custom=0.1, starts=(None, 0, 1), dweights=[1, 2, 2, 3, 3, 3] + [4] * (dmax >= 4)))
    d = len(cfg["sig"])
    prog = draw(st.sampled_from(sorted(PROGS)))
    names = list(draw(st.permutations(TEMP_NAMES))) + list(draw(st.permutations(NAMES)))

    def operand(classes, cap):
        o = draw(S.operand(d, classes=classes, max_len=cap, min_len=1, zero_prob=0.0))
        forms = [draw(st.sampled_from(["symbol", "symbol", "symbol", "num", "expr*2"])) for _ in o["keys"]]
        return {"keys": o["keys"], "vals": o["vals"], "forms": forms, "names": [names.pop(0) for _ in o["keys"]]}
    if prog in ("inv(a*b-b*a+c)", "c/(a*b-b*a+c)"):
        # d = 4: a*b - b*a is a bivector whose scalar part cancels identically; with c on the complementary plane the operand of the
        # inverse is a non-simple homogeneous element (symbolically: two blades; numerically: the same plus a stored zero scalar)
        cfg = {"sig": [draw(st.sampled_from([1, -1])) for _ in range(4)], "start": None, "basis": None}
        i_, j_, k_, l_ = draw(st.permutations([0, 1, 2, 3]))
        mk1 = lambda ks: {"keys": list(ks), "vals": [draw(S.fracs(nonzero=True)) for _ in ks], "forms": ["symbol"] * len(ks),
                          "names": [names.pop(0) for _ in ks]}
        # a, b: vectors in one plane (a*b and b*a both have a scalar part, which cancels), c: the blade of the complementary plane
        a, b, c = mk1([1 << i_, 1 << j_]), mk1([1 << j_, 1 << i_]), mk1([(1 << k_) | (1 << l_)])
    elif prog in ("sqrt(a*b)", "norm(a*b)"):
        # parallel blades: a*b is a scalar that is a PRODUCT of symbols
        k = draw(st.integers(1, 2 ** d - 1))
        a = {"keys": [k], "vals": [draw(S.fracs(nonzero=True))], "forms": ["symbol"], "names": [names.pop(0)]}
        b = {"keys": [k], "vals": [draw(S.fracs(nonzero=True))], "forms": [draw(st.sampled_from(["symbol", "symbol", "expr*2"]))], "names": [names.pop(0)]}
        c = None
    else:
        a = operand(["single", "sparse", "puregrade"], 3)
        b = operand(["single", "sparse", "puregrade", "perm"], 2 if d >= 3 else 3)
        c = operand(["single", "sparse", "puregrade"], 2 if d >= 3 else 3)
    vals = [[draw(S.fracs(nonzero=True)) for _ in range(16)] for _ in range(3)]
    return {"cfg": cfg, "op": "prog:" + prog, "a": a, "b": b, "c": c, "valuations": vals, "graded": False}


def cases(tier):
    return st.one_of(_cases(tier), _cases(tier), _cases(tier), _prog_cases(tier))


def _build(alg, opnd, valuation, syms):
    """-> (symbolic mv, numeric mv).  valuation: dict name -> Fraction."""
    import sympy
    svals, nvals = [], []
    for k, v, form, name in zip(opnd["keys"], opnd["vals"], opnd["forms"], opnd["names"]):
        if form == "num":
            svals.append(frac(v))
            nvals.append(frac(v))
        elif form == "sympy-number":
            import sympy as _sp
            fv = frac(v)
            svals.append(_sp.Rational(fv.numerator, fv.denominator))     # a sympy number next to symbolic coefficients
            nvals.append(fv)
        elif form == "float":
            svals.append(float(frac(v)))
            nvals.append(float(frac(v)))
        else:
            s = sympy.Symbol(name) if form != "symbolsub" else _psym()(name)
            syms.add(name)
            val = valuation[name]
            if form in ("symbol", "symbolsub"):
                svals.append(s)
                nvals.append(val)
            elif form == "string":
                svals.append(name)
                nvals.append(val)
            elif form == "expr+1":
                svals.append(s + 1)
                nvals.append(val + 1)
            elif form == "hidden0+s":
                # structurally non-zero, identically equal to s: (s + 1)**2 - s**2 - s - 1
                svals.append((s + 1) ** 2 - s ** 2 - s - 1)
                nvals.append(val)
            else:
                svals.append(2 * s)
                nvals.append(2 * val)
    return alg.multivector(keys=tuple(opnd["keys"]), values=svals), alg.multivector(keys=tuple(opnd["keys"]), values=nvals)


def _apply(op, x, y, z=None):
    if op.startswith("prog:"):
        return PROGS[op[5:]](x, y, z)
    return getattr(x, op)(y) if y is not None else getattr(x, op)()


def evaluate(case):
    import sympy
    cfg, op = case["cfg"], case["op"]
    alg = kd.build_algebra(cfg, graded=bool(case.get("graded")))
    allnames = case["a"]["names"] + (case["b"]["names"] if case["b"] else []) + (case["c"]["names"] if case.get("c") else [])
    floaty = "float" in case["a"]["forms"] or (case["b"] is not None and "float" in case["b"]["forms"]) or op in ("norm", "normalized") \
        or op in ("prog:sqrt(a*b)", "prog:norm(a*b)")
    counters = {}
    rs = None
    dropped_any = False
    nblades = 0
    used = 0
    syms = set()
    for vi, vlist in enumerate(case["valuations"]):
        valuation = {n: frac(vlist[i % len(vlist)]) for i, n in enumerate(allnames)}
        syms = set()
        xs, xn = _build(alg, case["a"], valuation, syms)
        ys = yn = None
        if case["b"] is not None:
            ys, yn = _build(alg, case["b"], valuation, syms)
        zs = zn = None
        if case.get("c") is not None:
            zs, zn = _build(alg, case["c"], valuation, syms)
        try:
            rn = kd.to_dict(_apply(op, xn, yn, zn), op=op)
        except ZeroDivisionError:
            counters["valuation-at-pole"] = counters.get("valuation-at-pole", 0) + 1
            continue
        except Exception as e:
            counters["numeric-raised:" + type(e).__name__] = 1
            continue
        if floaty and any(abs(complex(v)) > 1e6 for v in rn.values() if not hasattr(v, "free_symbols")):
            # float coefficients next to a pole of the rational result: the comparison would measure conditioning
            counters["valuation-near-pole"] = counters.get("valuation-near-pole", 0) + 1
            continue
        if rs is None:
            try:
                rs = _apply(op, xs, ys, zs)
            except ZeroDivisionError:
                # symbolic generation says the pattern is identically singular although this valuation is regular
                raise Violation("symbolic-then-substitute", op, f"symbolic {op} raised ZeroDivisionError but numeric operands at "
                                f"{kd.show(valuation)} give {kd.show(rn)}", exc="ZeroDivisionError")
            except Exception as e:
                raise Violation("symbolic-then-substitute", op, f"symbolic {op} raised {type(e).__name__}: {e}", exc=type(e).__name__)
            rsd = kd.to_dict(rs, op=op)
        used += 1
        # (i) sympy substitution
        subsmap = {sympy.Symbol(n): sympy.Rational(v.numerator, v.denominator) for n, v in valuation.items()}
        subsmap.update({_psym()(n): sympy.Rational(v.numerator, v.denominator) for n, v in valuation.items()})
        got = {}
        for k, v in rsd.items():
            sv = sympy.sympify(v).subs(subsmap) if hasattr(v, "subs") or isinstance(v, sympy.Basic) else v
            if isinstance(sv, sympy.Basic):
                if sv.free_symbols:
                    raise Violation("symbolic-then-substitute", op, f"coefficient of blade {k} still has free symbols {sv.free_symbols} "
                                    f"after substituting all operand symbols")
                sv = sympy.nsimplify(sv) if not floaty and sv.is_Rational is False and sv.is_number and False else sv
                if sv.is_Rational:
                    sv = F(int(sv.p), int(sv.q))
                else:
                    sv = complex(sv) if not sv.is_real else float(sv)
            got[k] = sv
        exact = not floaty and all(isinstance(v, (int, F)) for v in got.values())
        ok, why = kd.elem_equal(got, rn, None if exact else 1e-9)
        if not ok:
            raise Violation("symbolic-then-substitute", op, f"after substituting {kd.show(valuation)}: {why}; symbolic result "
                            f"{ {k: str(v) for k, v in rsd.items()} }", observed=kd.show(got), expected=kd.show(rn))
        dropped = [k for k in rn if k not in rsd]
        if dropped:
            dropped_any = True     # they were compared above: a dropped blade counts as 0 and must match rn
        nblades = max(nblades, len([k for k, v in rn.items() if v != 0]))
        # (ii) positional call in name order, (iii) keyword call
        free = sorted((str(s) for s in rs.free_symbols))
        if free:
            args = [valuation[n] for n in free]
            for how, fn in (("positional", lambda: rs(*args)), ("keyword", lambda: rs(**{n: valuation[n] for n in free}))):
                try:
                    called = kd.to_dict(fn(), op="call")
                except Exception as e:
                    raise Violation("call-binds-by-name", op, f"{how} call of the symbolic result raised {type(e).__name__}: {e} "
                                    f"(free symbols {free})", exc=type(e).__name__)
                ok, why = kd.elem_equal({k: _plain(v) for k, v in called.items()}, rn, 1e-9)
                if not ok:
                    raise Violation("call-binds-by-name", op, f"{how} call with {dict(zip(free, map(str, args)))} (free symbols in name "
                                    f"order {free}): {why}; symbolic result { {k: str(v) for k, v in rsd.items()} }",
                                    observed=kd.show(called), expected=kd.show(rn))
            counters["calls-checked"] = counters.get("calls-checked", 0) + 2
            # a different symbolic multivector with the same blades and the same free symbols, on the same algebra: calling it
            # must evaluate ITS coefficients (2*rs - rs/... would simplify; use the negation and the double)
            if vi == 0:
                for what, other, factor in (("-r", -rs, -1), ("r+r", rs + rs, 2)):
                    try:
                        called = kd.to_dict(other(*args) if set(map(str, other.free_symbols)) == set(free) else other, op="call")
                    except Exception as e:
                        raise Violation("call-binds-by-name", op, f"call of {what} raised {type(e).__name__}: {e}", exc=type(e).__name__)
                    exp2 = {k: factor * v for k, v in rn.items()}
                    ok, why = kd.elem_equal({k: _plain(v) for k, v in called.items()}, exp2, 1e-9)
                    if not ok:
                        raise Violation("call-binds-by-name", op, f"calling {what} (same blades and symbols as r, different coefficients) "
                                        f"after calling r: {why}", observed=kd.show(called), expected=kd.show(exp2))
    forms = case["a"]["forms"] + (case["b"]["forms"] if case["b"] else []) + (case["c"]["forms"] if case.get("c") else [])
    mix = any(f in ("num", "float", "sympy-number") for f in forms) and any(f not in ("num", "float", "sympy-number") for f in forms)
    labels = [f"op:{op}", f"d:{len(cfg['sig'])}"]
    if op.startswith("prog:"):
        labels.append("chain-of-operations")
    if case.get("graded"):
        labels.append("opt:graded")
    if mix:
        labels.append("mix:symbolic+numeric")
    if dropped_any:
        labels.append("dropped-blade")
    if "string" in forms:
        labels.append("form:string")
    if used == 0:
        labels.append("all-valuations-at-poles")
    nontrivial = used > 0 and len(syms) >= 2 and nblades >= 2 and (dropped_any or mix)
    key = [cfg["sig"], cfg.get("start"), cfg.get("basis"), op, case["a"]["keys"], case["a"]["forms"], case["a"]["names"],
           case["b"] and [case["b"]["keys"], case["b"]["forms"], case["b"]["names"]],
           case.get("c") and [case["c"]["keys"], case["c"]["forms"], case["c"]["names"]]]
    return Info(nontrivial, labels, key, counters)


def _plain(v):
    import sympy
    if isinstance(v, sympy.Basic):
        if v.is_Rational:
            return F(int(v.p), int(v.q))
        return complex(v) if v.is_real is False else float(v)
    return v


FINDING_PREDICATES = {}

MANIFEST_META = {
    "technique": "property-based commutation test (Hypothesis): operator on symbolic operands then substitute / call, versus "
                 "operator on the substituted numeric operands, at three rational valuations",
    "level_text": "Operands whose coefficients are independently sympy symbols (also given as strings or small expressions) or numbers "
                  "are combined with every operator; the symbolic result is evaluated by sympy substitution (exact), by a "
                  "positional call (binding in name order, with names chosen so that name order differs from creation and key "
                  "order) and by a keyword call, and each must equal the operator applied to the numeric operands. Blades dropped by "
                  "the automatic simplification are thereby checked to vanish at three independent valuations."
                  " A quarter of the cases are three-operand programs (a + b*c*b, sqrt(a*b), ...) whose symbols are named like common-subexpression temporaries (x0, x1, ...); graded algebras, hidden-zero and sympy-number coefficients, norm / normalized are included."
                  " Coefficients may be instances of a Symbol subclass; d=4 programs invert a non-simple bivector that is reached symbolically.",
    "level_note": "Trusted: sympy subs/Rational; numeric side is kingdon itself (C02-C08). Identically-zero test is probabilistic "
                  "(3 valuations). d<=3 quick, d<=4 thorough; small patterns for inverse-like operators.",
}
