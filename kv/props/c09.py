"""C09 -- results depend only on the operands, never on earlier operations (histories, wrappers, registered functions,
failing calls, thread schedules); no operation mutates its operands or earlier results."""
from __future__ import annotations
import copy
import os
from fractions import Fraction as F

from hypothesis import strategies as st

from ..core import Violation, Info, frac, HarnessError
from ..refops import pc
from .. import strategies as S
from .. import kd
from ..sched import Sched

ID = "C09"
BIN = ["gp", "op", "ip", "lc", "rc", "sp", "cp", "acp", "add", "sub", "rp", "sw", "proj", "div"]
UN = ["neg", "reverse", "involute", "conjugate", "normsq", "hodge", "unhodge", "inv", "outerexp"]
NUMOPS = ["gp", "add", "sub", "op", "ip", "div"]

# Library of registrable expressions (the README operator table).  {n} is the function name, {c} a callee (an earlier
# registered function object, bound through the function's globals like a user's module-level name would be).
PROGRAMS = [
    (2, False, "def {n}(a, b): return a * b"),
    (2, False, "def {n}(a, b): return b * a"),
    (2, False, "def {n}(a, b): return a * b + (a >> b)"),
    (2, False, "def {n}(a, b): return (a | b) * ~b - a"),
    (2, False, "def {n}(a, b): return a.cp(b) ^ a"),
    (2, False, "def {n}(a, b): return a - b"),
    (1, False, "def {n}(a): return a * a"),
    (1, False, "def {n}(a): return ~a * a + 2 * a"),
    (1, False, "def {n}(a): return a.grade(1) + a.grade(0, 2)"),
    (2, True, "def {n}(a, b): return {c}(a, b) * b"),
    (2, True, "def {n}(a, b): return {c}(b, a) + a"),
    (1, True, "def {n}(a): return {c}(a, a) - a"),
]
RULE = ("case = one history on ONE shared algebra (config d<=3 quick / d<=4 thorough, plus d=7 (lazily filled sign table) with light operators, wrapper None or a pass-through JIT "
        "stand-in, cse on/off): an operand pool (sparse Fraction multivectors plus permuted and zero-padded copies of pool "
        "entries added by construction) and 2-40 steps drawn from {unary/binary operator on pool entries, number on either "
        "side, list operand, register one of 12 expression programs under a name from a two-name pool (numeric or "
        "symbolic=True; nested programs call an earlier registered function), call a registered function, call a symbolic "
        "multivector with values, a raising call (inverse of zero, operand of another algebra, unknown dual kind, invalid "
        "grade)}. Optionally the steps are split over 2-3 threads and interleaved by a harness-owned deterministic scheduler "
        "(switch points at function entry in kingdon and at every line of the cache/codegen modules, schedule drawn by "
        "Hypothesis). Oracle per step: the value a FRESH algebra of the same configuration returns for that single step. "
        "Non-trivial = some (operator, blade set) is used with two different key orders, OR two different programs are "
        "registered under one name, OR a raising call precedes a successful call of the same operator; for schedules "
        "additionally >= 5 context switches. distinct = hash of the whole history.")
ASSUMPTIONS = [
    "oracle: a fresh Algebra of the same configuration executing only that step (with the registrations it needs replayed in "
    "registration order); results compared as elements, exceptions by class",
    "mutation invariant: keys and coefficient lists of every pool operand and of every previously returned multivector are "
    "snapshotted at creation and compared after every step (__setitem__ and graph drags are explicit mutation APIs and not "
    "part of the alphabet)",
    "threads: exactly one thread runs at a time; preemption is explored at call granularity in kingdon and line granularity "
    "in operator_dict/codegen/multivector/algebra/taperecorder, not between bytecodes of one line; true parallelism "
    "(free-threaded builds) is not explored",
    "the wrapper is a pure-Python pass-through that keeps __name__ (numba is not installed)",
]
REQUIRED_LABELS = {"reorder": 0.08, "wrapper": 0.2, "registered-call": 0.2, "threads": 0.1}


def budget(tier):
    n = int(os.environ.get("KV_EXAMPLES", 0)) or (2400 if tier == "quick" else 12000)
    return {"examples": n, "shards": 16, "wall": 100 if tier == "quick" else 1200, "shrink": 60 if tier == "quick" else 240}


@st.composite
def _cases(draw, tier):
    dmax = 3 if tier == "quick" else 4
    if draw(st.integers(0, 6)) == 0:
        # the lazily filled sign table of d >= 7 is state of the algebra object too: light operators on small operands
        cfg = draw(S.configs(7, 8 if tier == "thorough" else 7, starts=(None, 0, 1)))
    else:
        cfg = draw(S.configs(1, dmax, custom=0.1, dweights=[1, 2, 2, 3, 3, 3] + [4] * (dmax >= 4)))
    d = len(cfg["sig"])
    n = 2 ** d
    big = d >= 6
    if big and draw(st.integers(0, 2)) == 0:
        # graded=True on a lazily built algebra: operands are complete grades, most steps read basis blades
        cfg["basis"] = None
        grades = draw(st.lists(st.sampled_from([0, 1, d - 1, d]), min_size=1, max_size=3, unique=True))
        canon = S.canon_sorted(range(n))
        pool = [{"keys": [k for k in canon if bin(k).count("1") == g], "vals": None} for g in grades]
        for o in pool:
            o["vals"] = [draw(S.fracs(zero_prob=0.1)) for _ in o["keys"]]
        steps = []
        idx_ = st.integers(0, len(pool) - 1)
        for _ in range(draw(st.integers(3, 16))):
            k = draw(st.sampled_from(["blade", "blade", "blade", "bin", "un", "fb"]))
            if k == "blade":
                # blades of low grade, several of the same grade
                steps.append({"k": k, "b": draw(st.sampled_from([1, 2, 4, 8, 3, 5, 6, 0, 64, 16])), "form": draw(st.sampled_from(["getitem", "attr"]))})
            elif k == "bin":
                steps.append({"k": k, "op": draw(st.sampled_from(["add", "sub", "ip", "op", "gp"])), "i": draw(idx_), "j": draw(idx_)})
            elif k == "un":
                steps.append({"k": k, "op": draw(st.sampled_from(["neg", "reverse", "involute"])), "i": draw(idx_)})
            else:
                steps.append({"k": k, "op": draw(st.sampled_from(["ip", "op", "add"])), "r": draw(st.integers(0, 20)), "j": draw(idx_), "side": "l"})
        return {"cfg": cfg, "wrapper": draw(st.booleans()), "cse": True, "pool": pool, "steps": steps, "threads": None, "graded": True}
    pool = []
    for _ in range(draw(st.integers(1, 4))):
        o = draw(S.operand(d, classes=["single", "sparse", "sparse", "puregrade", "perm"], max_len=3 if big else (4 if d >= 4 else 5), zero_prob=0.05))
        if big:
            # small generator indices so that blades of different operands share generators
            o = {"keys": list(dict.fromkeys(k % 32 for k in o["keys"])), "vals": o["vals"]}
            o["vals"] = o["vals"][:len(o["keys"])]
        pool.append({"keys": o["keys"], "vals": o["vals"]})
    for _ in range(draw(st.integers(1, 3))):
        src = draw(st.sampled_from(pool))
        ks, vs = list(src["keys"]), list(src["vals"])
        if draw(st.booleans()):
            extra = draw(st.integers(0, n - 1))
            if extra not in ks:
                ks.append(extra)
                vs.append("0")
        p = draw(st.permutations(list(range(len(ks)))))
        pool.append({"keys": [ks[i] for i in p], "vals": [vs[i] for i in p]})
    symmix = None
    if not big and d <= 3 and draw(st.integers(0, 4)) == 0:
        # an operand mixing a sympy symbol with plain numbers (results of operators on it may be purely numeric again)
        src = draw(st.sampled_from(pool))
        if src["keys"]:
            pool.append({"keys": list(src["keys"][:2]), "vals": list(src["vals"][:2]), "sym": True})
            symmix = [len(pool) - 1]
            # a single-blade operand on the numeric blade of that operand: operators with it can give purely numeric results
            pool.append({"keys": [src["keys"][:2][-1]], "vals": ["2"]})
            symmix.append(len(pool) - 1)
            for k in range(n):
                if k not in src["keys"][:2]:
                    pool.append({"keys": [src["keys"][0], k][::draw(st.sampled_from([1, -1]))], "vals": ["0", "3"], "zero_first": True})
                    if pool[-1]["keys"][0] != src["keys"][0]:
                        pool[-1]["vals"] = ["3", "0"]
                    symmix.append(len(pool) - 1)
                    break
    idx = st.integers(0, len(pool) - 1)
    # a small operator alphabet per history, so that the same operator meets several storage orders of one blade set
    bins = draw(st.lists(st.sampled_from(BIN if not big else [b for b in BIN if b not in ("div", "sw", "proj")]), min_size=1, max_size=3, unique=True))
    uns = draw(st.lists(st.sampled_from(UN if not big else [u for u in UN if u not in ("inv", "outerexp", "normsq")]), min_size=1, max_size=2, unique=True))
    steps = []
    nsteps = draw(st.integers(2, 40 if tier == "thorough" else 30))
    for _ in range(nsteps):
        k = draw(st.sampled_from(["bin", "bin", "bin", "bin", "un", "un", "num", "list", "reg", "reg", "call", "call", "call", "symcall", "raise", "mut", "fb", "fb", "blade", "sinv"]
                                 if not big else ["bin", "bin", "bin", "bin", "un", "num", "list", "raise", "blade", "sinv", "fb"]))
        if k == "bin":
            steps.append({"k": k, "op": draw(st.sampled_from(bins)), "i": draw(idx), "j": draw(idx)})
        elif k == "un":
            steps.append({"k": k, "op": draw(st.sampled_from(uns)), "i": draw(idx)})
        elif k == "num":
            steps.append({"k": k, "op": draw(st.sampled_from(NUMOPS if not big else ["gp", "add", "sub", "op", "ip"])), "i": draw(idx),
                          "num": draw(st.sampled_from(["2", "1/2", "1", "-3", "2", "1/2"])),
                          "ntype": draw(st.sampled_from(["Fraction", "int", "float", "bool", "sympy", "np.float64"])),
                          "side": draw(st.sampled_from(["l", "r"]))})
            if draw(st.booleans()):
                # the same number again as another number type (2 == 2.0 == Fraction(2): equal and hash-equal)
                again = dict(steps[-1])
                again["ntype"] = draw(st.sampled_from(["Fraction", "int", "float", "sympy", "np.float64"]))
                steps.append(again)
        elif k == "fb":
            # a result of an earlier step fed back in as an operand
            steps.append({"k": k, "op": draw(st.sampled_from(bins)), "r": draw(st.integers(0, 40)), "j": draw(idx), "side": draw(st.sampled_from(["l", "r"]))})
        elif k == "blade":
            steps.append({"k": k, "b": draw(st.integers(0, min(n, 64) - 1)), "form": draw(st.sampled_from(["getitem", "attr"]))})
        elif k == "sinv":
            steps.append({"k": k, "v": draw(st.sampled_from(["4", "-2", "1/3"])), "form": draw(st.sampled_from(["inv", "div"]))})
        elif k == "mut":
            steps.append({"k": k, "op": draw(st.sampled_from(["inv", "normsq", "reverse", "sq", "sw", "gp", "pow-1", "neg"])), "i": draw(idx), "j": draw(idx),
                          "new": [draw(st.integers(-4, 4)) for _ in range(6)], "how": draw(st.sampled_from(["setitem", "backing"]))})
        elif k == "list":
            steps.append({"k": k, "op": draw(st.sampled_from(["gp", "op", "sw", "add"] if not big else ["gp", "op", "add"])), "i": draw(idx),
                          "js": draw(st.lists(idx, min_size=1, max_size=3)), "side": draw(st.sampled_from(["l", "r"]))})
        elif k == "reg":
            steps.append({"k": k, "p": draw(st.integers(0, len(PROGRAMS) - 1)), "name": draw(st.sampled_from(["f", "g"])),
                          "sym": draw(st.integers(0, 4)) == 0, "callee": draw(st.integers(0, 7))})
        elif k == "call":
            steps.append({"k": k, "slot": draw(st.integers(0, 7)), "i": draw(idx), "j": draw(idx)})
        elif k == "symcall":
            steps.append({"k": k, "op": draw(st.sampled_from(["gp", "op", "ip", "add", "sw", "cp"])), "i": draw(idx), "j": draw(idx)})
        else:
            steps.append({"k": k, "what": draw(st.sampled_from(["inv0", "otheralg", "badkind", "badgrade"] if not big else ["otheralg", "badkind", "badgrade"])), "i": draw(idx),
                          "op": draw(st.sampled_from(["gp", "add", "op"]))})
    if symmix and len(symmix) == 3:
        # by construction: symbol-mixed operand (op) single blade, the result fed back into an operator with a zero-holding operand
        at = draw(st.integers(0, len(steps)))
        steps[at:at] = [{"k": "bin", "op": draw(st.sampled_from(["ip", "sp", "lc", "rc", "gp", "op", "cp"])), "i": symmix[0], "j": symmix[1]},
                        {"k": "fb", "op": draw(st.sampled_from(["gp", "add", "sub", "op", "ip"])), "r": -1, "j": symmix[2], "side": draw(st.sampled_from(["l", "r"]))}]
    case = {"cfg": cfg, "wrapper": draw(st.sampled_from([False, True, True])), "cse": draw(st.booleans()), "pool": pool, "steps": steps,
            "threads": None}
    if draw(st.integers(0, 3)) == 0:
        nt = draw(st.integers(2, 3))
        case["threads"] = {"n": nt, "assign": [draw(st.integers(0, nt - 1)) for _ in steps],
                           # (gap, target): let `gap` yield points pass, then hand the run token to another thread; gaps are
                           # drawn on several scales so that switches land inside cache lookups, code generation and calls alike
                           "schedule": [[draw(st.sampled_from([0, 1, 2, 3, 5, 8, 13, 30, 80, 200, 600])), draw(st.integers(1, 2))]
                                        for _ in range(draw(st.integers(5, 60)))]}
        if draw(st.booleans()):
            # dense schedule: a switch every g yield points for the whole run (races between a check and the store after it)
            case["threads"]["schedule"] = [[draw(st.integers(0, 7)), draw(st.integers(1, 2))]] * 800
        if draw(st.booleans()):
            # "twin" threads: thread 1 mirrors the operator steps of thread 0 on re-ordered copies of the same operands, so both
            # threads generate code for the same operator and the same blade sets (different key order) at the same time
            npool = len(pool)
            for o in list(pool):
                case["pool"].append({"keys": o["keys"][::-1], "vals": o["vals"][::-1]})
            base = [s_ for s_ in steps if s_["k"] in ("bin", "un")][:12]
            twin = []
            for n_, s_ in enumerate(base):
                t_ = dict(s_)
                t_["i"] = s_["i"] + npool
                if "j" in s_ and n_ % 2:
                    t_["j"] = s_["j"] + npool
                twin.append(t_)
            case["steps"] = base + twin
            case["threads"]["n"] = 2
            case["threads"]["assign"] = [0] * len(base) + [1] * len(twin)
            case["threads"]["twin"] = True
    return case


def cases(tier):
    return _cases(tier)


# ---------------------------------------------------------------------------------------------------------------------
class Env:
    """One algebra + the pool built in it + the functions registered so far."""

    def __init__(self, case):
        self.case = case
        self.alg = kd.build_algebra(case["cfg"], cse=case["cse"], wrapper=case["wrapper"], graded=bool(case.get("graded")))
        self.pool = [kd.mk(self.alg, o["keys"], _pool_values(o)) for o in case["pool"]]
        self.slots = []        # [(reg step, registered object, nargs)]
        self.results = []      # multivectors returned by earlier steps (operands of "fb" steps)
        self.last_fb = None

    def register(self, step, callee_slot="choose"):
        """Register program step['p'] under step['name'].  Nested programs call an earlier registered 2-argument function:
        chosen among the existing slots (shared run) or given explicitly (fresh replay).  Returns the slot index or None."""
        nargs, nested, src = PROGRAMS[step["p"]]
        glob = {}
        dep = None
        if nested:
            if callee_slot == "choose":
                cands = [i for i, s in enumerate(self.slots) if s[2] == 2]
                if not cands:
                    return None
                dep = cands[step["callee"] % len(cands)]
            else:
                dep = callee_slot
            glob["CALLEE"] = self.slots[dep][1]
            src = src.replace("{c}", "CALLEE")
        exec(src.replace("{n}", step["name"]), glob)
        fn = glob[step["name"]]
        obj = self.alg.register(fn, symbolic=True) if step["sym"] else self.alg.register(fn)
        self.slots.append((step, obj, nargs, dep))
        return len(self.slots) - 1

    def chain(self, slot):
        """Registration steps a fresh algebra needs for `slot`: its callee chain, callee first."""
        out = []
        while slot is not None:
            out.append(slot)
            slot = self.slots[slot][3]
        return out[::-1]


def _pool_values(o):
    vals = [frac(v) for v in o["vals"]]
    if o.get("sym") and vals:
        import sympy
        vals[0] = sympy.Symbol("t")
    return vals


def _elem(x):
    """The result as stored: ordered dict key -> coefficient, explicit zeros included (the shared and the fresh algebra run the
    same computation on identical operands, so even the storage has to agree)."""
    if isinstance(x, (list, tuple)):
        return [_elem(v) for v in x]
    return dict(kd.to_dict(x, op="history"))


def _number(step):
    """The same numeric value as different Python / numpy / sympy number types (2 == 2.0 == True+1 ... compare and hash equal)."""
    v = frac(step["num"])
    t = step.get("ntype", "Fraction")
    if t == "int" and v.denominator == 1:
        return int(v)
    if t == "bool" and v == 1:
        return True
    if t == "float":
        return float(v)
    if t == "np.float64":
        import numpy as np
        return np.float64(float(v))
    if t == "sympy":
        import sympy
        return sympy.Rational(v.numerator, v.denominator)
    return v


def _mut_apply(step, m, other):
    op = step["op"]
    if op == "sq":
        return m * m
    if op == "pow-1":
        return m ** -1
    if op in ("sw", "gp"):
        return getattr(m, op)(other)
    return getattr(m, op)()


def _mut_step(env, step, fresh):
    """An array-valued multivector owned by this step is used, has one column of coefficients overwritten in place (item
    assignment, or writing to the ndarray it was built from), and is used again: the second result must be what the
    current coefficients give.  `fresh`: built with the final coefficients and used once, on a fresh algebra."""
    import numpy as np
    o = env.case["pool"][step["i"]]
    keys = list(o["keys"])
    if not keys:
        return None
    a0 = np.array([[float(frac(v)), float(frac(v)) + 1.0] for v in o["vals"]])
    new = [float(step["new"][i % 6]) + 0.5 for i in range(len(keys))]
    final = a0.copy()
    final[:, 0] = new
    other = env.pool[step["j"]]
    with np.errstate(all="ignore"):
        if fresh:
            return _mut_apply(step, kd.mk_raw(env.alg, keys, final), other)
        backing = a0.copy()
        m = kd.mk_raw(env.alg, keys, backing)
        try:
            _mut_apply(step, m, other)
        except Exception:
            pass
        if step["how"] == "setitem" or m.values() is not backing:
            m[0] = new
        else:
            backing[:, 0] = new
        return _mut_apply(step, m, other)


def run_step(env: Env, step, made, fixed_slot=None, fresh=False):
    """`fresh`: False on the shared algebra; the shared Env when this is the oracle run on a fresh algebra."""
    """Execute one step.  Returns ('ok', element(s)) | ('exc', class name) | ('skip', None).  Appends every multivector
    the step returned to `made`."""
    k = step["k"]
    P = env.pool
    try:
        if k == "bin":
            r = getattr(P[step["i"]], step["op"])(P[step["j"]])
        elif k == "un":
            r = getattr(P[step["i"]], step["op"])()
        elif k == "num":
            num = _number(step)
            x = P[step["i"]]
            fn = getattr(env.alg, step["op"])
            r = fn(num, x) if step["side"] == "l" else fn(x, num)
        elif k == "list":
            x = P[step["i"]]
            lst = [P[j] for j in step["js"]]
            fn = getattr(env.alg, step["op"])
            r = fn(lst, x) if step["side"] == "l" else fn(x, lst)
        elif k == "reg":
            slot = env.register(step)
            return ("skip", None) if slot is None else ("ok", "registered")
        elif k == "call":
            if not env.slots:
                return "skip", None
            _, obj, nargs, _ = env.slots[(step["slot"] % len(env.slots)) if fixed_slot is None else fixed_slot]
            args = [P[step["i"]], P[step["j"]]][:nargs]
            r = obj(*args)
        elif k == "symcall":
            x = P[step["i"]]
            xs = env.alg.multivector(name="s", keys=tuple(x.keys()))
            sym = getattr(xs, step["op"])(P[step["j"]])
            vals = {str(s): v for s, v in zip(xs.values(), x.values())}
            kwargs = {str(s): vals[str(s)] for s in sym.free_symbols}
            r = sym(**kwargs) if kwargs else sym
        elif k == "fb":
            if fresh is False:
                if not env.results:
                    return "skip", None
                env.last_fb = step["r"] % len(env.results)
                o = env.results[env.last_fb]
            else:
                src = fresh.results[fresh.last_fb]
                o = kd.mk_raw(env.alg, tuple(src.keys()), copy.deepcopy(src.values()) if not isinstance(src.values(), list) else copy.deepcopy(list(src.values())))
            y = P[step["j"]]
            r = getattr(o, step["op"])(y) if step["side"] == "l" else getattr(y, step["op"])(o)
        elif k == "blade":
            name = env.alg.bin2canon[step["b"] % len(env.alg)]
            r = env.alg.blades[name] if step["form"] == "getitem" else getattr(env.alg.blades, name)
        elif k == "sinv":
            sc = kd.mk(env.alg, [0], [frac(step["v"])])
            r = sc.inv() if step["form"] == "inv" else kd.mk(env.alg, [0], [F(6)]) / sc
        elif k == "mut":
            r = _mut_step(env, step, fresh is not False)
            if r is None:
                return "skip", None
        elif k == "raise":
            x = P[step["i"]]
            w = step["what"]
            if w == "inv0":
                z = kd.mk(env.alg, list(x.keys()) or [0], [F(0)] * max(1, len(x.keys())))
                r = z.inv()
            elif w == "otheralg":
                other = kd.Algebra(len(env.case["cfg"]["sig"]) + 1)
                r = getattr(x, step["op"])(other.multivector(keys=(1,), values=[F(2)]))
            elif w == "badkind":
                r = x.dual(kind="no-such-kind")
            else:
                r = x.grade(len(env.case["cfg"]["sig"]) + 3)
        else:
            raise HarnessError(f"unknown step {k}")
    except HarnessError:
        raise
    except Violation:
        raise
    except Exception as e:
        return "exc", type(e).__name__
    for m in (r if isinstance(r, (list, tuple)) else [r]):
        if isinstance(m, kd.MultiVector):
            made.append(m)
    return "ok", _elem(r)


def fresh_result(case, step, shared: Env):
    """The step on a fresh algebra.  A call of a registered function needs that function (and the chain of registered
    functions it calls) registered first -- nothing else of the history is replayed."""
    env = Env(case)
    made = []
    if step["k"] == "call":
        target = step["slot"] % len(shared.slots)
        chain = shared.chain(target)
        pos = {}
        for sl in chain:
            st_, _, _, dep = shared.slots[sl]
            pos[sl] = env.register(st_, callee_slot=pos.get(dep) if dep is not None else None)
        return run_step(env, step, made, fixed_slot=pos[target], fresh=shared)
    if step["k"] == "reg":
        return "ok", "registered"
    return run_step(env, step, made, fresh=shared)


def _snapshot(m):
    return (m, tuple(m.keys()), copy.deepcopy(list(m.values())))


def _arr_same(x, y):
    import numpy as np
    a_, b_ = np.asarray(x), np.asarray(y)
    if a_.shape != b_.shape:
        return False
    if a_.dtype.kind in "fc" and b_.dtype.kind in "fc":
        return bool(np.array_equal(a_, b_, equal_nan=True))
    eq = a_ == b_
    return bool(np.all(eq | ((a_ != a_) & (b_ != b_))))


def _vals_same(a, b):
    import numpy as np
    if len(a) != len(b):
        return False
    for x, y in zip(a, b):
        if hasattr(x, "shape") or hasattr(y, "shape"):
            if not _arr_same(x, y):
                return False
        elif x != y and not (x != x and y != y):
            return False
    return True


def _check_snapshots(snaps, after):
    for m, ks, vs in snaps:
        if tuple(m.keys()) != ks or not _vals_same(list(m.values()), vs):
            raise Violation("no-mutation", after.get("op", after["k"]), f"after step {after} a multivector created earlier changed: keys {ks} "
                            f"values {vs} -> keys {tuple(m.keys())} values {list(m.values())}")


def _classify(case):
    seen = {}
    reorder = False
    for s in case["steps"]:
        if s["k"] in ("bin", "un", "num", "list", "symcall"):
            for which in ("i", "j"):
                if which in s:
                    ks = case["pool"][s[which]]["keys"]
                    key = (s["op"], which, frozenset(ks))
                    if key in seen and seen[key] != ks:
                        reorder = True
                    seen.setdefault(key, ks)
    names = {}
    samename = False
    for s in case["steps"]:
        if s["k"] == "reg":
            if s["name"] in names and names[s["name"]] != s["p"]:
                samename = True
            names.setdefault(s["name"], s["p"])
    return reorder, samename


def evaluate(case):
    env = Env(case)
    snaps = [_snapshot(m) for m in env.pool]
    counters = {"steps": 0, "raised": 0, "skipped": 0}
    threads = case.get("threads")
    steps = case["steps"]
    labels = [f"d:{len(case['cfg']['sig'])}"]
    reorder, samename = _classify(case)
    raise_then_ok = False
    switches = 0

    if not threads:
        regs = []
        raised_ops = set()
        for n, step in enumerate(steps):
            made = []
            got = run_step(env, step, made)
            if got[0] == "skip":
                counters["skipped"] += 1
                continue
            exp = fresh_result(case, step, env)
            counters["steps"] += 1
            _compare(n, step, got, exp, case)
            if step["k"] == "reg":
                regs.append(step)
            if got[0] == "exc":
                counters["raised"] += 1
                raised_ops.add(step.get("op"))
            elif step.get("op") in raised_ops:
                raise_then_ok = True
            snaps.extend(_snapshot(m) for m in made)
            _check_snapshots(snaps, step)
            if got[0] == "ok" and step["k"] not in ("mut",):
                env.results.extend(made)
    else:
        # registrations run up front (sequentially), the remaining steps are split over threads and interleaved
        regs = []
        for step in steps:
            if step["k"] == "reg":
                made = []
                got = run_step(env, step, made)
                if got[0] == "ok":
                    regs.append(step)
        work = [[] for _ in range(threads["n"])]
        for n, step in enumerate(steps):
            if step["k"] not in ("reg", "fb"):
                work[threads["assign"][n]].append((n, step))
        results = {}
        mades = []

        def body(seq):
            def run():
                for n, step in seq:
                    made = []
                    results[n] = run_step(env, step, made)
                    mades.extend(made)
            return run
        sched = Sched(threads["schedule"], kd.KV_REPO)
        sched.run([body(seq) for seq in work])
        if sched.errors:
            tid, err = next(iter(sched.errors.items()))
            if isinstance(err, (Violation, HarnessError)):
                raise err
            raise HarnessError(f"thread {tid} crashed in the harness: {err!r}")
        switches = sched.switches
        counters["switches"] = switches
        counters["yield_points"] = sched.points
        for n, step in enumerate(steps):
            if n not in results or results[n][0] == "skip":
                continue
            exp = fresh_result(case, step, env)
            counters["steps"] += 1
            _compare(n, step, results[n], exp, case, threaded=True)
            if results[n][0] == "exc":
                counters["raised"] += 1
        snaps.extend(_snapshot(m) for m in mades)
        _check_snapshots(snaps, {"k": "threads"})
        labels.append("threads")
    if threads and threads.get("twin"):
        labels.append("threads:twin")
    for kind_ in ("fb", "blade", "sinv", "mut"):
        if any(s_["k"] == kind_ for s_ in steps):
            labels.append(f"step:{kind_}")
    if case.get("graded"):
        labels.append("opt:graded-lazy")
    if any(o.get("sym") for o in case["pool"]):
        labels.append("pool:symbol-mixed")
    if reorder:
        labels.append("reorder")
    if samename:
        labels.append("same-name-registered-twice")
    if case["wrapper"]:
        labels.append("wrapper")
    if any(s["k"] == "call" for s in steps) and any(s["k"] == "reg" for s in steps):
        labels.append("registered-call")
    nontrivial = (reorder or samename or raise_then_ok) and (not threads or switches >= 5)
    return Info(nontrivial, labels, case, counters)


def _identical(g, e):
    """The shared and the fresh algebra run the same deterministic computation on the same operands, so the two results are
    compared for exact equality (==; arrays element-wise with NaN == NaN), not to rounding: Fraction(1, 6) != 1/6 as float."""
    import numpy as np
    if list(g) != list(e):
        return False, f"stored blades (in order) {list(g)} vs {list(e)}"
    for k in g:
        a, b = g[k], e[k]
        if hasattr(a, "shape") or hasattr(b, "shape"):
            same = _arr_same(a, b)
        else:
            try:
                same = bool(a == b) or (a != a and b != b)
                if not same and (hasattr(a, "free_symbols") or hasattr(b, "free_symbols")):
                    import sympy
                    same = sympy.simplify(sympy.sympify(a) - sympy.sympify(b)) == 0
            except Exception:
                same = False
        if not same:
            return False, f"blade {k}: {a!r} vs {b!r} (exact comparison: same computation on both algebras)"
    return True, ""


def _compare(n, step, got, exp, case, threaded=False):
    how = " (threads interleaved)" if threaded else ""
    op = step.get("op") or step["k"]
    if got[0] != exp[0]:
        raise Violation("history-independent", op, f"step {n} {step}{how}: shared algebra gave {got}, a fresh algebra gives {exp}",
                        exc="raise-mismatch", shared=repr(got)[:400], fresh=repr(exp)[:400])
    if got[0] == "exc":
        if got[1] != exp[1]:
            raise Violation("history-independent", op, f"step {n} {step}{how}: shared algebra raised {got[1]}, a fresh algebra raises {exp[1]}",
                            exc="raise-mismatch")
        return
    if got[1] == "registered":
        return
    g, e = got[1], exp[1]
    pairs = list(zip(g, e)) if isinstance(g, list) else [(g, e)]
    if isinstance(g, list) and len(g) != len(e):
        raise Violation("history-independent", op, f"step {n} {step}{how}: {len(g)} results vs {len(e)} on a fresh algebra")
    for gg, ee in pairs:
        ok, why = _identical(gg, ee)
        if not ok:
            raise Violation("history-independent", op, f"step {n} {step}{how}: {why}; shared algebra returned {kd.show(gg)}, a fresh "
                            f"algebra returns {kd.show(ee)} (wrapper={case['wrapper']})", shared=kd.show(gg), fresh=kd.show(ee))


def _pred_numspace_collision(case, v, **_):
    return False


FINDING_PREDICATES = {}

MANIFEST_META = {
    "technique": "model-based / stateful property testing (Hypothesis): generated call histories on one shared algebra, oracle = "
                 "fresh algebra per step; thread interleavings under a harness-owned deterministic scheduler (sys.settrace)",
    "level_text": "Histories of 2-40 steps (operators on a pool that contains permuted and zero-padded copies by construction, "
                  "numbers and lists as operands, registration of expression programs under colliding names incl. nested and "
                  "symbolic ones, calls of registered functions and of symbolic multivectors, deliberately failing calls) are run on "
                  "one algebra with and without a wrapper; every step must return what a fresh algebra returns and no earlier "
                  "multivector may change. A quarter of the histories are split over 2-3 threads whose interleaving is a "
                  "Hypothesis-drawn schedule executed by a deterministic scheduler, so failures shrink and replay."
                  " Since rounds 3-4: results are compared exactly incl. stored keys and explicit zeros (same deterministic computation); number operands of hash-equal value but different type follow each other; steps feed earlier results back in (the fresh algebra rebuilds them from keys and values), read alg.blades, invert scalars (d>=6 too), overwrite array-valued operands in place between two uses; pools may hold an operand mixing a sympy symbol with numbers."
                  " A third of the d=7 histories run on a graded (lazily built) algebra with repeated alg.blades reads.",
    "level_note": "Preemption explored at call/line granularity owned by the harness, not between bytecodes; no true parallelism; "
                  "wrapper is a Python pass-through (numba absent). d<=3 quick, d<=4 thorough.",
}
