"""C02 -- Geometric product of sparse multivectors equals the bilinear extension of the blade table."""
from __future__ import annotations
import os
from itertools import permutations, combinations, product

from hypothesis import strategies as st

from ..core import Violation, Info, frac
from ..refalg import RefAlgebra
from ..refops import R, pc
from ..ring import Q
from .. import strategies as S
from .. import kd

ID = "C02"
RULE = ("case = (algebra config: signature ordering / start index / optional custom basis, ordered key tuple of a, "
        "ordered key tuple of b, coefficient mode, cse flag); each distinct (config, keysA, keysB, cse) makes kingdon "
        "generate a different function. Coefficients: 'generic' = one indeterminate of an independent rational-function "
        "ring per stored blade (decides the identity for all coefficient values at once), or Fractions with explicit "
        "zeros. Non-trivial = both operands non-empty AND (some output blade receives >= 2 contributing terms OR a key "
        "tuple is in non-canonical order). distinct = hash(config, keysA, keysB, cse, mode).")
ASSUMPTIONS = [
    "reference sign table comes from kv.refalg.RefAlgebra (bubble sort over generator names, built from the generated "
    "configuration only); reference product is the bilinear extension in kv.refops",
    "generic coefficients are elements of kv.ring.Q (exact rational functions over Q); kingdon executes them through the "
    "numeric path of the generated function",
    "dimensions d<=8 sampled (d>=6: <=8 stored blades per operand; d=7,8 use the lazily filled sign table), d<=1 (quick) / "
    "d<=2 (thorough) enumerated",
    "each case also multiplies a re-ordered storage of the same two elements on the same algebra and then the original again",
    "CPython, fractions, Hypothesis are trusted",
]
EXHAUSTIVE_SUBSPACES = {
    "quick": ["all ordered key-tuple pairs x all signatures for d<=1 (generic coefficients, cse on and off)"],
    "thorough": ["all ordered key-tuple pairs x all signatures for d<=2 (65^2 x 9 + ...; generic coefficients, cse alternating)"],
}
REQUIRED_LABELS = {"order:noncanonical": 0.05, "mode:generic": 0.2, "sig:degenerate": 0.03, "lazy:d>=7": 0.03}


def budget(tier):
    n = int(os.environ.get("KV_EXAMPLES", 0)) or (8000 if tier == "quick" else 80000)
    return {"examples": n, "shards": 8 if tier == "quick" else 16, "wall": 80 if tier == "quick" else 900}


@st.composite
def _cases(draw, dmax):
    cfg = draw(S.configs(0, 8, custom=0.25, named=True, dweights=[0, 1, 2, 2, 3, 3, 3, 4, 4, 4, 6, 7, 8] + [5, 5] * (dmax >= 5)))
    d = len(cfg["sig"])
    if cfg.get("basis") and d > 5 and not cfg.get("named"):
        cfg["basis"] = None
    cap = None if d <= 4 else (12 if d == 5 else 8)
    a = draw(S.operand(d, max_len=cap))
    b = draw(S.operand(d, max_len=cap))
    graded = d <= 5 and draw(st.integers(0, 7)) == 0
    if graded:
        # graded mode: operands are complete grades in canonical order (default basis); the product must be the same element
        cfg["basis"] = None
        cfg.pop("named", None)
        a = draw(S.operand(d, classes=["gradeblock"]))
        b = draw(S.operand(d, classes=["gradeblock"]))
    return {"cfg": cfg, "a": a, "b": b, "mode": draw(st.sampled_from(["generic", "generic", "frac", "typed"])),
            "cse": draw(st.booleans()), "wrapper": draw(st.integers(0, 4)) == 0, "graded": graded}


def cases(tier):
    return _cases(4 if tier == "quick" else 5)


def _all_key_tuples(d):
    n = 2 ** d
    out = []
    for r in range(n + 1):
        for comb in combinations(range(n), r):
            for p in permutations(comb):
                out.append(list(p))
    return out


def _big_cases():
    """Generated programs of a size the sampled cases never reach: d=6, operands of 40-64 blades, so that several output
    coefficients are sums of more than 32 (up to 64) terms and there are 64 outputs."""
    full = S.canon_sorted(range(64))
    for sig in ([1, 1, 1, 1, -1, -1], [0, 1, 1, -1, 1, 1]):
        for ka, kb in ((full, full[:40]), (full[::-1], full), (full[10:50], list(range(64)))):
            yield {"cfg": {"sig": sig, "start": None, "basis": None}, "a": {"cls": "enum", "keys": list(ka), "vals": None},
                   "b": {"cls": "enum", "keys": list(kb), "vals": None}, "mode": "generic", "cse": sig[0] == 1}


def enumerate_cases(tier):
    yield from _big_cases()
    dmax = 1 if tier == "quick" else 2
    i = 0
    for d in range(dmax + 1):
        tuples = _all_key_tuples(d)
        for sig in product([1, -1, 0], repeat=d):
            for ka in tuples:
                for kb in tuples:
                    for cse in ((True, False) if d <= 1 else ((i % 2 == 0),)):
                        i += 1
                        yield {"cfg": {"sig": list(sig), "start": None, "basis": None},
                               "a": {"cls": "enum", "keys": ka, "vals": None},
                               "b": {"cls": "enum", "keys": kb, "vals": None}, "mode": "generic", "cse": cse}


def _values(opnd, mode, prefix):
    if mode == "generic" or opnd.get("vals") is None:
        return [Q.var(f"{prefix}{k}") for k in opnd["keys"]]
    if mode == "typed" and opnd.get("tvals"):
        from .. import values as V
        return V.decode(opnd["tvals"])
    return [frac(v) for v in opnd["vals"]]


def evaluate(case):
    cfg = case["cfg"]
    ref = RefAlgebra(cfg)
    Rr = R(ref.d, ref.T)
    alg = kd.build_algebra(cfg, cse=case["cse"], wrapper=bool(case.get("wrapper")), graded=bool(case.get("graded")))
    ka, kb = case["a"]["keys"], case["b"]["keys"]
    va, vb = _values(case["a"], case["mode"], "a"), _values(case["b"], case["mode"], "b")
    x, y = kd.mk(alg, ka, va), kd.mk(alg, kb, vb)
    try:
        res = x * y
    except Exception as e:
        raise Violation("gp-returns", "gp", f"a*b raised {type(e).__name__}: {e}", exc=type(e).__name__)
    got = kd.to_dict(res, op="gp")
    exp = Rr.gp(dict(zip(ka, va)), dict(zip(kb, vb)))
    ok, why = kd.elem_equal(got, exp)
    if not ok:
        raise Violation("gp-bilinear-extension", "gp", why, observed=kd.show(got), expected=kd.show(exp))
    # method / function forms go through the same cache entry and must agree
    got2 = kd.to_dict(alg.gp(x, y), op="gp")
    ok, why = kd.elem_equal(got2, exp)
    if not ok:
        raise Violation("gp-bilinear-extension", "gp", "second call (cached function): " + why,
                        observed=kd.show(got2), expected=kd.show(exp))
    # the same two elements stored in another key order, on the SAME algebra, then the original order again: each order
    # is its own generated function and none may disturb the other ("in whatever order")
    if (len(ka) > 1 or len(kb) > 1) and not case.get("graded"):
        va_l, vb_l = list(va), list(vb)
        ka2, va2 = ka[::-1], va_l[::-1]
        kb2, vb2 = (kb[1:] + kb[:1], vb_l[1:] + vb_l[:1]) if len(kb) > 1 else (kb, vb_l)
        x2, y2 = kd.mk(alg, ka2, va2), kd.mk(alg, kb2, vb2)
        for what, p, q in (("reordered operands", x2, y2), ("original order after the reordered call", x, y)):
            try:
                g = kd.to_dict(p * q, op="gp")
            except Exception as e:
                raise Violation("gp-returns", "gp", f"{what}: a*b raised {type(e).__name__}: {e}", exc=type(e).__name__)
            ok, why = kd.elem_equal(g, exp)
            if not ok:
                raise Violation("gp-bilinear-extension", "gp", f"{what} (keys {list(p.keys())} x {list(q.keys())}): " + why,
                                observed=kd.show(g), expected=kd.show(exp))
    # classification
    contrib = {}
    for i in ka:
        for j in kb:
            if ref.T(i, j):
                contrib[i ^ j] = contrib.get(i ^ j, 0) + 1
    noncanon = (not S.is_canonical(ka)) or (not S.is_canonical(kb))
    nontrivial = bool(ka) and bool(kb) and (any(c >= 2 for c in contrib.values()) or noncanon)
    if case["mode"] == "typed" and case["a"].get("tvals"):
        from .. import values as V
        extra_labels = ["repr:" + V.describe(case["a"]["tvals"])]
    else:
        extra_labels = []
    labels = extra_labels + [f"d:{ref.d}", f"mode:{case['mode']}", f"cse:{case['cse']}",
              "order:noncanonical" if noncanon else "order:canonical",
              "basis:custom" if cfg.get("basis") else "basis:default",
              f"clsA:{case['a']['cls']}"]
    if 0 in ref.sig:
        labels.append("sig:degenerate")
    if ref.d >= 7:
        labels.append("lazy:d>=7")
    if case.get("graded"):
        labels.append("opt:graded")
    if not ka or not kb:
        labels.append("operand:empty")
    key = [cfg["sig"], cfg.get("start"), cfg.get("basis"), ka, kb, case["cse"], case["mode"], bool(case.get("wrapper"))]
    if case.get("wrapper"):
        labels.append("opt:wrapper")
    return Info(nontrivial, labels, key, sample={"result_keys": sorted(got)} if nontrivial else None)


FINDING_PREDICATES = {}

MANIFEST_META = {
    "technique": "property-based differential testing (Hypothesis + enumeration) against an independent reference "
                 "Clifford algebra, with generic-ring (indeterminate) coefficients",
    "level_text": "Every generated (config, key-tuple pair, cse) makes kingdon generate and compile a fresh gp function; "
                  "its output on indeterminate coefficients is compared, blade by blade, with the bilinear extension of an "
                  "independently derived sign table, which decides the identity for all coefficient values of that pattern. "
                  "All patterns for d<=1 (quick) / d<=2 (thorough) are enumerated; larger d and custom bases are sampled."
                  " Six fixed d=6 cases with operands of 40-64 blades (64 outputs, sums of up to 64 terms) run every time; algebras are also obtained from a re-used ndarray signature and via dataclasses.replace.",
    "level_note": "Trusted: kv.refalg (bubble-sort Clifford product over generator names), kv.refops, kv.ring.Q, CPython "
                  "fractions, Hypothesis. Not absence of bugs: patterns for d>=3 are sampled, d>5 not explored here.",
}
