"""C19 -- exp, outer exponentials, sqrt, powers and norms obey their identities."""
from __future__ import annotations
import math
import os
from fractions import Fraction as F

from hypothesis import strategies as st

from ..core import Violation, Info, frac, fstr
from ..refalg import RefAlgebra
from ..refops import R, pc, clean
from .. import strategies as S
from .. import kd

ID = "C19"
RULE = ("case kinds: (outer) outerexp/outersin/outercos/outertan on scalar-free operands, pure and mixed grade, d<=6, Fractions "
        "or floats, vs the finite sum of reference wedge powers / k!; (exp) simple elements -- any vector, any scaled basis "
        "blade, products of two orthogonal basis vectors, scalar multiples -- with positive, zero and negative square (|x^2| <= "
        "9), coefficient types float / int / complex / np.float64 / ndarray / sympy symbol, vs the exact partial sum of 40 terms "
        "of the power series; (sqrt) Study numbers a + B with stored a > 0 and B a vector or scaled blade of any grade (B^2 "
        "negative, zero, or positive with a >= 1.5|B|): sqrt*sqrt = x and x**0.5 = sqrt; (pow) x**n for n in -4..4 on "
        "invertible Fraction operands vs repeated reference products; (norm) norm(x)^2 = normsq(x), normalized(x).normsq() = 1 "
        "for elements whose normsq is a positive scalar. Non-trivial = exp: square != 0; sqrt: B != 0; outer: >= 2 non-zero "
        "terms beyond 1 + x; pow: |n| >= 2 and >= 2 blades; norm: >= 2 blades. distinct = hash(case).")
ASSUMPTIONS = [
    "reference wedge powers / products from kv.refops on the independent sign table; power series summed exactly in Fractions "
    "(40 terms; truncation error < 1e-30 for |x^2| <= 9) or in Python complex arithmetic for complex coefficients",
    "tolerance 1e-9 relative (the generated code contains float constants 1/k; sqrt/exp are float functions)",
    "sympy subs/evalf trusted for the symbolic exp",
    "operands are constructed inside the stated domains; nothing is asserted outside them",
]
TOLERANCE = "1e-9 relative over the union of key sets"
REQUIRED_LABELS = {"kind:exp": 0.15, "kind:outer": 0.15, "kind:sqrt": 0.1, "kind:pow": 0.1, "kind:norm": 0.05,
                   "exp:square>0": 0.03, "exp:square<0": 0.03, "exp:square=0": 0.01}


def budget(tier):
    n = int(os.environ.get("KV_EXAMPLES", 0)) or (16000 if tier == "quick" else 50000)
    return {"examples": n, "shards": 16, "wall": 100 if tier == "quick" else 1200}


SMALL = ["1/2", "-1/2", "1", "-1", "3/2", "1/4", "2", "-3/4", "1/3"]


@st.composite
def _cases(draw, tier):
    kind = draw(st.sampled_from(["outer", "outer", "exp", "exp", "exp", "sqrt", "sqrt", "pow", "norm"]))
    if kind == "outer":
        cfg = draw(S.configs(1, 6, custom=0.1, dweights=[1, 2, 3, 3, 4, 4, 5, 6]))
        d = len(cfg["sig"])
        if cfg.get("basis") and d > 4:
            cfg["basis"] = None
        fn = draw(st.sampled_from(["outerexp", "outersin", "outercos", "outertan"]))
        cap = {1: 2, 2: 3, 3: 6, 4: 6, 5: 5, 6: 4}[d] if fn != "outertan" else {1: 2, 2: 3, 3: 4, 4: 3, 5: 3, 6: 2}[d]
        o = draw(S.operand(d, classes=["single", "sparse", "sparse", "puregrade", "puregrade", "perm"], max_len=cap + 1, min_len=1, zero_prob=0.0))
        kv = [(k, v) for k, v in zip(o["keys"], o["vals"]) if k != 0][:cap]
        if not kv:
            kv = [(1, "1/2")]
        return {"kind": kind, "cfg": cfg, "fn": fn, "keys": [k for k, _ in kv], "vals": [v for _, v in kv], "float": draw(st.booleans())}
    if kind == "exp":
        cfg = draw(S.configs(1, 4, custom=0.1, dweights=[1, 2, 2, 3, 3, 3, 4]))
        d = len(cfg["sig"])
        shape = draw(st.sampled_from(["vector", "vector", "blade", "blade", "biv2"]))
        if shape == "vector":
            idx = draw(st.lists(st.integers(0, d - 1), unique=True, min_size=1, max_size=d))
            keys = [1 << i for i in idx]
        elif shape == "blade":
            keys = [draw(st.integers(1, 2 ** d - 1))]
        else:
            # scalar multiple of the product of two (orthogonal) basis vectors plus, for d<=3, any bivector (all simple there)
            if d >= 2 and d <= 3:
                keys = [k for k in range(2 ** d) if pc(k) == 2]
                keys = draw(st.lists(st.sampled_from(keys), unique=True, min_size=1, max_size=len(keys)))
            else:
                keys = [draw(st.integers(1, 2 ** d - 1))]
        vals = [draw(st.sampled_from(SMALL)) for _ in keys]
        return {"kind": kind, "cfg": cfg, "keys": keys, "vals": vals,
                "type": draw(st.sampled_from(["float", "float", "int", "complex", "np.float64", "ndarray", "sympy"]))}
    if kind == "sqrt":
        cfg = draw(S.configs(0, 5, custom=0.1, dweights=[0, 1, 2, 2, 3, 3, 4, 4, 5]))
        d = len(cfg["sig"])
        if cfg.get("basis") and d > 4:
            cfg["basis"] = None
        shape = draw(st.sampled_from(["blade", "blade", "vector", "scalar"])) if d else "scalar"
        if shape == "blade":
            bk = [draw(st.integers(1, 2 ** d - 1))]
        elif shape == "vector":
            idx = draw(st.lists(st.integers(0, d - 1), unique=True, min_size=1, max_size=min(d, 3)))
            bk = [1 << i for i in idx]
        else:
            bk = []
        bv = [draw(st.sampled_from(["1/2", "-1/2", "1/4", "1", "-3/4", "1/3"])) for _ in bk]
        a = draw(st.sampled_from(["3", "4", "5", "9/2", "7"]))
        graded = False
        if d and draw(st.integers(0, 4)) == 0 and not cfg.get("basis"):
            # graded algebra: the Study number stores complete grades (scalar + the whole grade g), in canonical order
            g = draw(st.sampled_from([1, d, 2 if d >= 2 else 1]))
            bk = [k for k in S.canon_sorted(range(2 ** d)) if pc(k) == g]
            bv = [draw(st.sampled_from(["1/2", "-1/2", "1/4", "0", "0", "1/3"])) for _ in bk]
            graded = True
        return {"kind": kind, "cfg": cfg, "a": a, "bkeys": bk, "bvals": bv, "form": draw(st.sampled_from(["sqrt", "pow0.5"])),
                "order": "scalar-first" if graded else draw(st.sampled_from(["scalar-first", "scalar-last"])), "graded": graded}
    if kind == "pow":
        cfg = draw(S.configs(0, 4, custom=0.1, dweights=[0, 1, 2, 2, 3, 3, 4]))
        d = len(cfg["sig"])
        o = draw(S.operand(d, classes=["single", "sparse", "puregrade", "perm"], max_len=4 if d >= 3 else 4, min_len=1, zero_prob=0.0))
        return {"kind": kind, "cfg": cfg, "keys": o["keys"], "vals": o["vals"], "n": draw(st.sampled_from([-4, -3, -2, -1, 0, 1, 2, 3, 4]))}
    cfg = draw(S.configs(1, 4, dweights=[1, 2, 2, 3, 3, 4]))
    d = len(cfg["sig"])
    shape = draw(st.sampled_from(["vector", "blade", "study", "study"]))
    if shape == "vector":
        idx = draw(st.lists(st.integers(0, d - 1), unique=True, min_size=1, max_size=d))
        keys = [1 << i for i in idx]
    elif shape == "blade":
        keys = [draw(st.integers(0, 2 ** d - 1))]
    else:
        # scalar + one blade, or two commuting blades: x*~x is a Study number (scalar + blade), often with a non-scalar part
        k1 = draw(st.integers(1, 2 ** d - 1))
        nulls = [j for j, sg in enumerate(cfg["sig"]) if sg == 0]
        if nulls and draw(st.booleans()):
            k1 |= 1 << nulls[0]        # a blade containing a null generator: normsq = a^2 + 2ab*B has scalar part exactly a^2
        keys = [0, k1] if draw(st.booleans()) else [k1, (2 ** d - 1) ^ k1 if (2 ** d - 1) ^ k1 else k1]
        keys = list(dict.fromkeys(keys))
    vals = [draw(st.sampled_from(SMALL)) for _ in keys]
    if shape == "study":
        vals[0] = draw(st.sampled_from(["1", "1", "2", "-1", "3/2"]))      # normsq scalar part exactly 1 happens on purpose
    return {"kind": "norm", "cfg": cfg, "keys": keys, "vals": vals, "type": draw(st.sampled_from(["float", "float", "int"])),
            "fn": draw(st.sampled_from(["norm", "normalized"]))}


def cases(tier):
    return _cases(tier)


def _call(fn, clause, op, what=""):
    try:
        return fn()
    except Violation:
        raise
    except Exception as e:
        raise Violation(clause, op, f"{what} raised {type(e).__name__}: {e}", exc=type(e).__name__)


def _series_exp(Rr, x, terms=40, one=F(1)):
    """sum_{k<terms} x^k/k! in the coefficient ring of x."""
    tot = {0: one}
    term = {0: one}
    for k in range(1, terms):
        term = Rr.gp(term, x)
        term = {b: v / k for b, v in term.items()}
        tot = Rr.add(tot, term)
    return tot


def _num(v):
    import sympy
    if isinstance(v, sympy.Basic):
        c = complex(sympy.N(v, 30))
        return c.real if abs(c.imag) < 1e-15 else c
    return v


def _cmp(got, exp, clause, op, what, tol=1e-9):
    ok, why = kd.elem_equal({k: _num(v) for k, v in got.items()}, {k: (float(v) if isinstance(v, F) else v) for k, v in exp.items()}, tol)
    if not ok:
        raise Violation(clause, op, f"{what}: {why}", observed=kd.show(got), expected=kd.show(exp))


def evaluate(case):
    kind, cfg = case["kind"], case["cfg"]
    ref = RefAlgebra(cfg)
    d = ref.d
    Rr = R(d, ref.T)
    alg = kd.build_algebra(cfg, graded=bool(case.get("graded")))
    labels = [f"kind:{kind}", f"d:{d}"] + (["opt:graded"] if case.get("graded") else [])
    counters = {}
    nontrivial = False
    if kind == "outer":
        fn = case["fn"]
        keys = case["keys"]
        fvals = [frac(v) for v in case["vals"]]
        vals = [float(v) for v in fvals] if case["float"] else fvals
        x = kd.mk(alg, keys, vals)
        dx = dict(zip(keys, fvals))
        terms = Rr.outerexp_terms(dx)
        if fn == "outerexp":
            sel = terms
        elif fn == "outersin":
            sel = terms[1::2]
        else:
            sel = terms[0::2]
        exp = {}
        for t in sel:
            exp = Rr.add(exp, t)
        if fn == "outertan":
            s_, c_ = {}, {}
            for t in terms[1::2]:
                s_ = Rr.add(s_, t)
            for t in terms[0::2]:
                c_ = Rr.add(c_, t)
            ci = Rr.inv(clean(c_))
            if ci is None:
                return Info(False, labels + ["outercos-singular"], None)
            exp = Rr.gp(s_, ci)
        got = kd.to_dict(_call(lambda: getattr(x, fn)(), "outer-series", fn, f"{fn}(x) for keys {keys}"), op=fn)
        _cmp(got, exp, "outer-series", fn, f"{fn} of x = {kd.show(dx)} in signature {ref.sig} vs the finite sum of wedge powers / k!")
        if fn == "outertan":
            oc = _call(lambda: x.outercos(), "outer-series", "outercos")
            os_ = _call(lambda: x.outersin(), "outer-series", "outersin")
            _cmp(kd.to_dict(_call(lambda: kd.mk_raw(alg, list(got), list(got.values())) * oc, "outer-series", "gp")),
                 {k: (float(v) if isinstance(v, F) else v) for k, v in kd.to_dict(os_).items()}, "outertan*outercos=outersin", fn,
                 "outertan(x) * outercos(x) vs outersin(x)")
        # the series itself written out in a compiled (registered) function, with the float constants 1/2 and 1/6
        if fn == "outerexp" and len(terms) <= 4 and ref.d <= 6 and len(keys) <= 6:
            def f_series(a):
                return 1 + a + (a ^ a) * (1 / 2) + (a ^ a ^ a) * (1 / 6)
            sg = kd.to_dict(_call(lambda: alg.register(f_series)(x), "outer-series", fn, "registered 1 + x + x^x/2 + x^x^x/6"), op=fn)
            _cmp(sg, exp, "outer-series", fn, f"the series 1 + x + (x^x)*(1/2) + (x^x^x)*(1/6) in a registered function vs the finite sum, x = {kd.show(dx)}")
            counters["checked:registered-series"] = 1
            # ... and of a scaled argument (a float constant with nine significant digits inside the compiled function)
            c9 = 0.123456789

            def f_scaled(a):
                y = a * 0.123456789
                return 1 + y + (y ^ y) * (1 / 2) + (y ^ y ^ y) * (1 / 6)
            exp9 = {}
            for t in Rr.outerexp_terms({k: float(v) * c9 for k, v in dx.items()}):
                exp9 = Rr.add(exp9, t)
            sg9 = kd.to_dict(_call(lambda: alg.register(f_scaled)(x), "outer-series", fn, "registered series of 0.123456789*x"), op=fn)
            _cmp(sg9, exp9, "outer-series", fn, f"the outer series of 0.123456789*x written out in a registered function, x = {kd.show(dx)}")
        # the empty multivector (the zero element storing no blade) is in the domain too: the series starts with 1
        empty = kd.mk(alg, [], [])
        e_exp = {0: 1} if fn in ("outerexp", "outercos") else {}
        e_got = kd.to_dict(_call(lambda: getattr(empty, fn)(), "outer-series", fn, f"{fn}(empty multivector)"), op=fn)
        _cmp(e_got, e_exp, "outer-series", fn, f"{fn} of the empty multivector (signature {ref.sig})")
        nz = [t for t in terms[2:] if clean(t)]
        nontrivial = len(nz) >= 2 or (len(nz) >= 1 and len({pc(k) for k in keys}) >= 2)
        labels.append(f"fn:{fn}")
        if len({pc(k) for k in keys}) >= 2:
            labels.append("outer:mixed-grade")
    elif kind == "exp":
        import numpy as np
        keys = case["keys"]
        fvals = [frac(v) for v in case["vals"]]
        dx = dict(zip(keys, fvals))
        sq = clean(Rr.gp(dx, dx))
        if set(sq) - {0}:
            return Info(False, labels + ["exp:not-simple"], None)
        s2 = sq.get(0, F(0))
        if abs(s2) > 9:
            scale = F(1, 2) ** 3
            fvals = [v * scale for v in fvals]
            dx = dict(zip(keys, fvals))
            s2 = s2 * scale * scale
        typ = case["type"]
        labels += [f"type:{typ}", "exp:square>0" if s2 > 0 else ("exp:square<0" if s2 < 0 else "exp:square=0")]
        if typ == "complex":
            cvals = [complex(float(v), 0.5 * float(v)) for v in fvals]
            x = kd.mk(alg, keys, cvals)
            refx = dict(zip(keys, cvals))
            exp = _series_exp(Rr, refx, terms=60, one=1.0 + 0j)
        elif typ == "sympy":
            import sympy
            t = sympy.Symbol("t")
            x = kd.mk(alg, keys, [t * sympy.Rational(v.numerator, v.denominator) for v in fvals])
            tv = F(3, 4)
            refx = {k: v * tv for k, v in dx.items()}
            exp = _series_exp(Rr, refx)
        else:
            conv = {"float": float, "int": None, "np.float64": lambda v: np.float64(float(v)), "ndarray": None}[typ]
            if typ == "int":
                ivals = [int(v.numerator) if v.denominator == 1 else (1 if v > 0 else -1) for v in fvals]
                dx = dict(zip(keys, [F(v) for v in ivals]))
                sq = clean(Rr.gp(dx, dx))
                if abs(sq.get(0, 0)) > 9:
                    ivals = [1 if v > 0 else -1 for v in ivals][:1] + [0] * (len(ivals) - 1)
                    dx = dict(zip(keys, [F(v) for v in ivals]))
                x = kd.mk(alg, keys, ivals)
                refx = dx
            elif typ == "ndarray":
                arr = np.array([[float(v), float(v) / 2, -float(v)] for v in fvals])
                x = kd.mk_raw(alg, keys, arr)
                refx = None
            else:
                x = kd.mk(alg, keys, [conv(v) for v in fvals])
                refx = dx
            exp = _series_exp(Rr, refx) if refx is not None else None
        res = _call(lambda: x.exp(), "exp=power-series", "exp", f"exp(x) for x on blades {keys} (coefficient type {typ}, x^2 = {float(s2):.4g})")
        got = kd.to_dict(res, op="exp")
        if typ == "sympy":
            import sympy
            t = sympy.Symbol("t")
            got = {k: (sympy.sympify(v).subs(t, sympy.Rational(3, 4)) if isinstance(v, sympy.Basic) else v) for k, v in got.items()}
        if typ == "ndarray":
            for j, fac in enumerate((F(1), F(1, 2), F(-1))):
                ej = _series_exp(Rr, {k: v * fac for k, v in dx.items()})
                gj = {k: (np.asarray(v)[j] if np.ndim(v) else v) for k, v in got.items()}
                _cmp(gj, ej, "exp=power-series", "exp", f"exp of array-valued x (element {j}) on blades {keys}")
        else:
            _cmp(got, exp, "exp=power-series", "exp", f"exp(x), x = {kd.show(refx if typ != 'sympy' else dx)} ({typ}"
                 + (", t=3/4" if typ == "sympy" else "") + f") in signature {ref.sig}, x^2 = {float(s2):.4g}")
        nontrivial = s2 != 0
    elif kind == "sqrt":
        a = frac(case["a"])
        bk, bv = case["bkeys"], [frac(v) for v in case["bvals"]]
        B = dict(zip(bk, bv))
        bsq = clean(Rr.gp(B, B))
        if set(bsq) - {0}:
            return Info(False, labels + ["sqrt:B-not-simple"], None)
        b2 = bsq.get(0, F(0))
        if b2 > 0 and a * a < F(9, 4) * b2:
            a = a + 2 * abs(max(bv, key=abs)) * len(bv) + 1   # keep a >= 1.5 |B| by construction
        keys = ([0] + bk) if case["order"] == "scalar-first" else (bk + [0])
        vals = ([float(a)] + [float(v) for v in bv]) if case["order"] == "scalar-first" else ([float(v) for v in bv] + [float(a)])
        x = kd.mk(alg, keys, vals)
        dx = dict(zip(keys, vals))
        form = case["form"]
        r = _call(lambda: x.sqrt() if form == "sqrt" else x ** 0.5, "sqrt*sqrt=x", form, f"{form} of {kd.show(dx)}")
        rr = kd.to_dict(_call(lambda: r * r, "sqrt*sqrt=x", "gp"), op="gp")
        _cmp(rr, dx, "sqrt*sqrt=x", form, f"sqrt(x)*sqrt(x) for the Study number x = {kd.show(dx)} in signature {ref.sig} (B^2 = {float(b2):.4g})")
        other = _call(lambda: x ** 0.5 if form == "sqrt" else x.sqrt(), "x**0.5=sqrt", "pow0.5")
        _cmp(kd.to_dict(other), kd.to_dict(r), "x**0.5=sqrt", "pow0.5", "x**0.5 vs x.sqrt()")
        nontrivial = bool(clean(B))
        labels.append("sqrt:B^2>0" if b2 > 0 else ("sqrt:B^2<0" if b2 < 0 else "sqrt:B^2=0"))
        if bk and all(pc(k) == 1 for k in bk):
            labels.append("sqrt:scalar+vector")
    elif kind == "pow":
        keys, vals = case["keys"], [frac(v) for v in case["vals"]]
        n = case["n"]
        dx = dict(zip(keys, vals))
        x = kd.mk(alg, keys, vals)
        base = dx
        if n < 0:
            base = Rr.inv(clean(dx))
            if base is None:
                try:
                    r = x ** n
                except Exception:
                    return Info(False, labels + ["pow:singular-raised"], None)
                raise Violation("integer-power", "pow", f"x**{n} returned {kd.show(kd.to_dict(r))} for the singular x = {kd.show(dx)}")
        exp = Rr.power(base, abs(n))
        got = kd.to_dict(_call(lambda: x ** n, "integer-power", "pow", f"x**{n} for x = {kd.show(dx)}"), op="pow")
        ok, why = kd.elem_equal(got, exp)
        if not ok:
            raise Violation("integer-power", "pow", f"x**{n} for x = {kd.show(dx)} in signature {ref.sig}: {why}", observed=kd.show(got), expected=kd.show(exp))
        # the same power inside a compiled (registered) function
        if ref.d <= 4 and len(keys) <= 6:
            def f_pow(a, _n=n):
                return a ** _n
            rg = kd.to_dict(_call(lambda: alg.register(f_pow)(x), "integer-power", "pow", f"alg.register(lambda a: a**{n})(x)"), op="pow")
            ok, why = kd.elem_equal(rg, exp)
            if not ok:
                raise Violation("integer-power", "pow", f"alg.register(lambda a: a**{n})(x) for x = {kd.show(dx)} in signature {ref.sig}: {why}",
                                observed=kd.show(rg), expected=kd.show(exp))
            counters["checked:registered-power"] = 1
        nontrivial = abs(n) >= 2 and len(keys) >= 2
        labels.append(f"n:{n}")
    else:
        keys, fvals = case["keys"], [frac(v) for v in case["vals"]]
        dx = dict(zip(keys, fvals))
        nsq = clean(Rr.normsq(dx))
        # domain: normsq is a Study number a + B with a > 0 and B a single blade squaring to a scalar (B^2 <= 0, or a >= 1.5|B|)
        rest = {k: v for k, v in nsq.items() if k != 0}
        a0 = nsq.get(0, 0)
        okdom = a0 > 0 and len(rest) <= 1
        if okdom and rest:
            (bk, bv), = rest.items()
            b2 = ref.T(bk, bk) * bv * bv
            okdom = (b2 <= 0) or (a0 * a0 >= F(9, 4) * b2)
        if okdom and rest and not kd.elem_equal(Rr.gp(nsq, dx), Rr.gp(dx, nsq))[0]:
            okdom = False      # x / norm(x) has unit squared norm only when norm(x) (scalar + blade) commutes with x
        if not okdom:
            return Info(False, labels + ["norm:out-of-domain"], None)
        if rest:
            labels.append("norm:study-normsq")
        asint = case.get("type") == "int" and all(v.denominator == 1 for v in fvals)
        x = kd.mk(alg, keys, [int(v) for v in fvals] if asint else [float(v) for v in fvals])
        if case["fn"] == "norm":
            nrm = _call(lambda: x.norm(), "norm^2=normsq", "norm")
            sq = kd.to_dict(_call(lambda: nrm * nrm, "norm^2=normsq", "gp"))
            _cmp(sq, nsq, "norm^2=normsq", "norm", f"norm(x)^2 vs normsq(x) for x = {kd.show(dx)}")
        else:
            u = _call(lambda: x.normalized(), "normalized-has-unit-normsq", "normalized")
            un = kd.to_dict(_call(lambda: u.normsq(), "normalized-has-unit-normsq", "normsq"))
            _cmp(un, {0: F(1)}, "normalized-has-unit-normsq", "normalized", f"normalized(x).normsq() for x = {kd.show(dx)} (normsq(x) = {kd.show(nsq)})")
            if not rest:
                ud = kd.to_dict(u)
                scale = math.sqrt(float(nsq[0]))
                _cmp({k: v * scale for k, v in ud.items()}, dx, "normalized-has-unit-normsq", "normalized", "normalized(x) * |x| vs x")
        if rest:
            return Info(True, labels, case, counters)
        nontrivial = len(keys) >= 2
        # the identities hold for the CURRENT coefficients: change an array-valued multivector in place through the public
        # __setitem__ after norm()/normalized() has been called once, and ask again
        import numpy as np
        arr = np.array([[float(v), 2 * float(v)] for v in fvals])
        xa = kd.mk_raw(alg, keys, np.array(arr))
        first = _call(lambda: getattr(xa, case["fn"])(), "norm^2=normsq", case["fn"], "array-valued x")
        other = kd.mk_raw(alg, keys, np.array(arr) * 3.0)
        xa[0] = other[0]
        again = _call(lambda: getattr(xa, case["fn"])(), "norm^2=normsq", case["fn"], "array-valued x after x[0] = ...")
        for j, scale_ in ((0, 3.0), (1, 2.0)):
            dj = {k: v * scale_ for k, v in dx.items()}
            nj = clean(Rr.normsq(dj))
            if case["fn"] == "norm":
                sqj = kd.to_dict(again[j] * again[j])
                _cmp(sqj, nj, "norm^2=normsq", "norm", f"after x[0] = 3*x[0] in place: norm(x)[{j}]^2 vs normsq of the current coefficients")
            else:
                _cmp(kd.to_dict(again[j].normsq()), {0: F(1)}, "normalized-has-unit-normsq", "normalized", f"after x[0] = 3*x[0] in place: normalized(x)[{j}].normsq()")
                _cmp({k: v * math.sqrt(float(nj[0])) for k, v in kd.to_dict(again[j]).items()}, dj, "normalized-has-unit-normsq", "normalized",
                     f"after x[0] = 3*x[0] in place: normalized(x)[{j}] * |x[{j}]| vs the current x[{j}]")
    return Info(nontrivial, labels, case, counters)


def _pred_exp_ndarray(case, v, **_):
    """exp() of an array-valued multivector: (x*x).filter() evaluates the truth value of an array (ValueError); behind that
    the branch selection assumes a single sign of the square for the whole array (NaN for positive squares)."""
    return case.get("kind") == "exp" and case.get("type") == "ndarray" and v.op == "exp"


FINDING_PREDICATES = {"exp_ndarray": _pred_exp_ndarray}

MANIFEST_META = {
    "technique": "property-based testing (Hypothesis) against exact series / identity oracles: finite wedge-power sums and 40-term "
                 "power series in exact arithmetic, sqrt*sqrt = x, repeated reference products, unit squared norm",
    "level_text": "Operands are constructed inside the stated domains (scalar-free for the outer series, simple elements of every sign "
                  "of square for exp with six coefficient types, Study numbers scalar + vector/blade of any grade for sqrt, invertible "
                  "Fraction operands for integer powers -4..4, positive squared norm for norm/normalized) and every identity of the "
                  "statement is checked against an exact reference at 1e-9."
                  " Also: the outer series of the empty multivector, integer powers inside a registered function, Study-number norms with a pseudoscalar part, graded algebras."
                  " The outer series (also of 0.123456789*x) written out in a registered function.",
    "level_note": "Trusted: kv.refops, Fractions, sympy evalf for the symbolic exp. d<=6 for the outer series, d<=4/5 elsewhere.",
}
