"""C20 -- the graph widget payload reflects the multivectors it is given; drags write back exactly the moved coefficients."""
from __future__ import annotations
import os
from fractions import Fraction as F

from hypothesis import strategies as st

from ..core import Violation, Info, frac, HarnessError
from ..refalg import RefAlgebra
from ..refops import pc
from .. import strategies as S
from .. import kd

ID = "C20"
RULE = ("case = (default-basis algebra d<=4 incl. the PGA special case r=1 with d=3,4; a nested subject tree over {colour ints, "
        "strings, multivectors, lists, tuples, zero-argument callables returning any of these, callables depending on top-level "
        "multivectors}; multivectors: sparse, dense canonical, dense BINARY layout, permuted keys, array-valued (n,) / (n,m), "
        "list-backed or ndarray-backed (float64 / int64); optional camera option; the single-callable root form; then a history "
        "of drag updates shaped exactly as graph.js sends them (one {mv: [2^d numbers in canonical order]} per index in "
        "draggable_points_idxs) interleaved with update_mvs messages). The payload is decoded by a transcription of the front "
        "end's toElement/decode. Non-trivial = tree containing a dense non-canonical or array-valued multivector, or nesting "
        "depth >= 2, or a history with >= 2 drags touching different multivectors. distinct = hash(case).")
ASSUMPTIONS = [
    "graph.js is not executed; the oracle is a line-by-line Python transcription of its toElement/decode (bytes -> Float64Array; "
    "with keys: scatter through key2idx; without keys: positional in canonical blade order) -- stated assumption",
    "signature / cayley / key2idx are compared with kv.refalg",
    "drag histories use scenes whose first-level multivectors are float-backed and not array-valued (the front end has no "
    "single element to send back for array-valued ones; an int64 ndarray cannot store a dragged 0.5); the initial value of draggable_points is read by nobody and is not asserted",
    "anywidget / traitlets machinery is used as-is (no notebook needed); float coefficients compared exactly (no arithmetic is "
    "involved in encoding) except for dependent callables (1e-12)",
]
REQUIRED_LABELS = {"has:dense-noncanonical": 0.1, "has:array": 0.1, "has:callable": 0.2, "drags>=1": 0.2}


def budget(tier):
    n = int(os.environ.get("KV_EXAMPLES", 0)) or (24000 if tier == "quick" else 80000)
    return {"examples": n, "shards": 16, "wall": 90 if tier == "quick" else 900}


VALS = ["1", "2", "-1", "3", "1/2", "-3/2", "5", "1/4", "7", "-2"]


@st.composite
def _mv(draw, d, allow_array=True, allow_int=True):
    n = 2 ** d
    layout = draw(st.sampled_from(["sparse", "sparse", "sparse", "dense-canonical", "dense-binary", "dense-permuted", "sparse-permuted"]))
    if layout.startswith("dense"):
        keys = list(range(n)) if layout != "dense-canonical" else None   # None -> canonical, filled in evaluate
        if layout == "dense-permuted":
            keys = list(draw(st.permutations(list(range(n)))))
    else:
        keys = draw(st.lists(st.integers(0, n - 1), unique=True, min_size=1, max_size=min(n - 1, 5) or 1))
        if layout == "sparse":
            keys = list(S.canon_sorted(keys))
    nk = n if keys is None else len(keys)
    shape = draw(st.sampled_from([None, None, None, [2], [3], [2, 2]])) if allow_array else None
    backing = draw(st.sampled_from(["list", "list", "ndarray-float", "ndarray-int"] if allow_int else ["list", "list", "ndarray-float"]))
    vals = [draw(st.sampled_from(VALS)) for _ in range(nk)]
    if backing == "ndarray-int":
        vals = [str(int(frac(v).numerator)) for v in vals]
    return {"t": "mv", "layout": layout, "keys": keys, "vals": vals, "shape": shape, "backing": backing}


@st.composite
def _item(draw, d, depth, ntop, arrays=True):
    kinds = ["mv", "mv", "color", "string"]
    if depth > 0:
        kinds += ["list", "tuple", "callable", "callable"]
    if ntop >= 2:
        kinds += ["dep"]
    k = draw(st.sampled_from(kinds))
    if k == "mv":
        # in drag histories first-level multivectors are float-backed and not array-valued: an int64 ndarray cannot hold the
        # dragged value 0.5 (numpy truncates on assignment; that is the user's dtype, not the widget)
        return draw(_mv(d, allow_array=arrays, allow_int=arrays))
    if k == "color":
        return {"t": "color", "v": draw(st.sampled_from([0xD0FFE1, 0x224488, 0, 255]))}
    if k == "string":
        return {"t": "string", "v": draw(st.sampled_from(["A", "label", ""]))}
    if k in ("list", "tuple"):
        return {"t": k, "items": [draw(_item(d, depth - 1, ntop)) for _ in range(draw(st.integers(0, 3)))]}
    if k == "callable":
        return {"t": "callable", "depth": draw(st.integers(1, 2)), "value": draw(_item(d, depth - 1, ntop))}
    return {"t": "dep", "op": draw(st.sampled_from(["add", "op", "gp", "rp"])), "i": draw(st.integers(0, ntop - 1)), "j": draw(st.integers(0, ntop - 1))}


@st.composite
def _cases(draw):
    cfg = draw(st.sampled_from([{"sig": [1, 1]}, {"sig": [0, 1, 1]}, {"sig": [1, 1, 1]}, {"sig": [0, 1, 1, 1]}, {"sig": [1, 1, 1, 1]},
                                {"sig": [1, -1, 1]}, {"sig": [1]}, {"sig": [1, 1, 0]}, {"sig": [0, 1, 1, -1]}, {"sig": [1, 0, 0, 1]}]))
    cfg = {"sig": list(cfg["sig"]), "start": None, "basis": None}
    d = len(cfg["sig"])
    history = draw(st.booleans())
    ntop = draw(st.integers(1, 3))
    pga = cfg["sig"].count(0) == 1 and d in (3, 4)
    tops = []
    for _ in range(ntop):
        m = draw(_mv(d, allow_array=not history, allow_int=not history))
        if pga and draw(st.booleans()):
            # a draggable point in PGA: pure grade d-1
            ks = list(S.canon_sorted([k for k in range(2 ** d) if pc(k) == d - 1]))
            m = {"t": "mv", "layout": "sparse", "keys": ks, "vals": [draw(st.sampled_from(VALS)) for _ in ks], "shape": None,
                 "backing": draw(st.sampled_from(["list", "ndarray-float"]))}
        tops.append(m)
    extra = [draw(_item(d, 2, ntop, arrays=not history)) for _ in range(draw(st.integers(0, 4)))]
    order = draw(st.permutations(list(range(ntop + len(extra)))))
    case = {"cfg": cfg, "tops": tops, "extra": extra, "order": list(order), "rootfunc": draw(st.integers(0, 5)) == 0,
            "camera": draw(st.sampled_from([None, None, "mv"])), "steps": []}
    if history:
        n = 2 ** d
        for _ in range(draw(st.integers(1, 5))):
            if draw(st.integers(0, 3)) == 0:
                case["steps"].append({"k": "update"})
            else:
                case["steps"].append({"k": "drag", "which": draw(st.integers(0, 7)),
                                      "vals": [draw(st.sampled_from(VALS + ["0", "9", "-7"])) for _ in range(n)],
                                      "also": draw(st.booleans())})
    return case


def cases(tier):
    return _cases()


# ---------------------------------------------------------------------------------------------------------------------
def _build_mv(alg, ref, spec):
    import numpy as np
    keys = list(ref.canon_keys) if spec["keys"] is None else list(spec["keys"])
    base = [frac(v) for v in spec["vals"]]
    shape = spec["shape"]
    if shape:
        grid = np.arange(int(np.prod(shape))).reshape(shape)
        arrs = [float(b) * (1 + grid) + 0.5 * grid for b in base]
        if spec["backing"] == "ndarray-int":
            arrs = [np.asarray(int(b) * (1 + grid) + grid, dtype=np.int64) for b in base]
        if spec["backing"].startswith("ndarray"):
            values = np.array(arrs)
        else:
            values = [np.array(a, dtype=float) for a in arrs]
    else:
        if spec["backing"] == "ndarray-float":
            values = np.array([float(b) for b in base], dtype=np.float64)
        elif spec["backing"] == "ndarray-int":
            values = np.array([int(b) for b in base], dtype=np.int64)
        else:
            values = [float(b) for b in base]
    return kd.mk_raw(alg, keys, values)


def _coeffs(ref, keys, values):
    out = [0.0] * len(ref.canon_keys)
    idx = {k: i for i, k in enumerate(ref.canon_keys)}
    for k, v in zip(keys, values):
        out[idx[k]] = float(v)
    return out


def _expand_mv(ref, mv):
    """Expected decoded elements of one multivector object (array-valued ones element by element, C order)."""
    import numpy as np
    vals = mv.values()
    keys = list(mv.keys())
    arr = np.array([np.asarray(v, dtype=float) for v in vals]) if len(keys) else np.zeros((0,))
    if arr.ndim <= 1:
        return [_coeffs(ref, keys, list(arr))]
    out = []
    for idx in np.ndindex(*arr.shape[1:]):
        out.append(_coeffs(ref, keys, [arr[(j,) + idx] for j in range(len(keys))]))
    return out


class Dep:
    """A multivector derived from two draggable points.  In the ordinary form it is given to the widget as a lambda; in the
    ganja.js-style single-root-function form it is computed in the BODY of the root function (so it only follows a drag if the
    widget calls the root function again)."""

    def __init__(self, a, b, op):
        self.a, self.b, self.op = a, b, op

    def value(self):
        return getattr(self.a, self.op)(self.b)


def _resolve(o):
    if isinstance(o, Dep):
        return o.value()
    if isinstance(o, list):
        return [_resolve(x) for x in o]
    if isinstance(o, tuple):
        return tuple(_resolve(x) for x in o)
    return o


class Scene:
    def __init__(self, case):
        self.case = case
        self.ref = RefAlgebra(case["cfg"])
        self.alg = kd.build_algebra(case["cfg"])
        self.tops = [_build_mv(self.alg, self.ref, s) for s in case["tops"]]
        slots = [("top", i) for i in range(len(self.tops))] + [("extra", j) for j in range(len(case["extra"]))]
        self.layout = [slots[i] for i in case["order"]]
        self.objs = {}
        self.subjects = [self._make(s) for s in self.layout]

    def _make(self, slot):
        if slot[0] == "top":
            return self.tops[slot[1]]
        return self._obj(self.case["extra"][slot[1]])

    def _obj(self, spec):
        t = spec["t"]
        if t == "mv":
            return _build_mv(self.alg, self.ref, spec)
        if t in ("color", "string"):
            return spec["v"]
        if t in ("list", "tuple"):
            items = [self._obj(s) for s in spec["items"]]
            return items if t == "list" else tuple(items)
        if t == "callable":
            v = self._obj(spec["value"])
            f = lambda: _resolve(v)
            if spec["depth"] == 2:
                g = f
                f = lambda: g
            return f
        if t == "dep":
            a, b = self.tops[spec["i"]], self.tops[spec["j"]]
            if self.case["tops"][spec["i"]]["shape"] or self.case["tops"][spec["j"]]["shape"]:
                return "dependent-callable-skipped"     # array-valued operands of different trailing shapes do not combine
            op = spec["op"]
            if self.case["rootfunc"]:
                return Dep(a, b, op)
            return lambda: getattr(a, op)(b)
        raise HarnessError(t)

    # expected decoded payload ------------------------------------------------------------------------------------
    def expected(self, o):
        """list of decoded items that object `o` contributes to its parent list."""
        if isinstance(o, kd.MultiVector):
            return _expand_mv(self.ref, o)
        if isinstance(o, Dep):
            return self.expected(o.value())
        if isinstance(o, (list, tuple)):
            return [[x for item in o for x in self.expected(item)]]
        if callable(o):
            return self.expected(o())
        return [o]

    def expected_root(self, subjects, rootfunc):
        if rootfunc:
            v = subjects()
            if not isinstance(v, (list, tuple)):
                v = [v]
            return [x for item in v for x in self.expected(item)]
        return [x for item in subjects for x in self.expected(item)]


def decode(x, key2idx):
    """Transcription of graph.js: toElement / decode."""
    import numpy as np
    if isinstance(x, dict) and "mv" in x:
        vals = x["mv"]
        if isinstance(vals, (bytes, bytearray, memoryview)):
            vals = list(np.frombuffer(bytes(vals), dtype=np.float64))      # new Float64Array(o['mv'].buffer)
        if "keys" in x:
            values = [0] * len(key2idx)
            for j, k in enumerate(x["keys"]):
                values[key2idx[k]] = vals[j]
            return [float(v) for v in values]
        return [float(v) for v in vals]
    if isinstance(x, (list, tuple)):
        return [decode(y, key2idx) for y in x]
    return x


def _same(a, b, tol=0.0):
    if isinstance(a, list) and isinstance(b, list):
        return len(a) == len(b) and all(_same(x, y, tol) for x, y in zip(a, b))
    if isinstance(a, float) or isinstance(b, float):
        try:
            return abs(float(a) - float(b)) <= tol * max(1.0, abs(float(b)))
        except Exception:
            return False
    return a == b


def evaluate(case):
    import numpy as np
    sc = Scene(case)
    ref, alg = sc.ref, sc.alg
    d = ref.d
    options = {}
    cam = None
    if case["camera"]:
        cam = kd.mk_raw(alg, [0, ref.canon_keys[-1]], [1.0, 0.5]) if d else kd.mk_raw(alg, [0], [1.0])
        options["camera"] = cam
    rootfunc = case["rootfunc"]
    if rootfunc:
        subj_list = sc.subjects
        root = lambda: _resolve(subj_list)     # derived multivectors are computed in the body of the root function
        try:
            w = alg.graph(root, **options)
        except Exception as e:
            raise Violation("payload", "graph", f"alg.graph(func) raised {type(e).__name__}: {e}", exc=type(e).__name__)
    else:
        try:
            w = alg.graph(*sc.subjects, **options)
        except Exception as e:
            raise Violation("payload", "graph", f"alg.graph(...) raised {type(e).__name__}: {e}", exc=type(e).__name__)
    labels = [f"d:{d}"]
    specs = list(case["tops"]) + [s for e_ in case["extra"] for s in _walk_specs(e_)]
    if any(s["t"] == "mv" and s["layout"] in ("dense-binary", "dense-permuted") for s in specs):
        labels.append("has:dense-noncanonical")
    if any(s["t"] == "mv" and s["shape"] for s in specs):
        labels.append("has:array")
    if any(s["t"] in ("callable", "dep") for s in specs):
        labels.append("has:callable")
    if any(s["t"] == "mv" and s["backing"] == "ndarray-int" for s in specs):
        labels.append("has:int-ndarray")
    # algebra description ------------------------------------------------------------------------------------------
    if list(w.signature) != ref.sig or any(type(s) is not int for s in w.signature):
        raise Violation("algebra-description", "signature", f"signature sent {list(w.signature)}, algebra has {ref.sig}")
    k2i = {int(k): v for k, v in dict(w.key2idx).items()}
    if k2i != {k: i for i, k in enumerate(ref.canon_keys)}:
        raise Violation("algebra-description", "key2idx", f"key2idx sent {k2i}, canonical blade order is {list(ref.canon_keys)}")
    cay = w.cayley
    for r_, na in enumerate(ref.names):
        for c_, nb in enumerate(ref.names):
            exp = ref.cayley_string(na, nb)
            exp = exp[:-1] + "1" if exp.endswith("e") else exp
            if cay[r_][c_] != exp:
                raise Violation("algebra-description", "cayley", f"cayley[{na}][{nb}] sent {cay[r_][c_]!r}, expected {exp!r}")
    if cam is not None:
        got = decode(dict(w.options).get("camera"), k2i)
        exp = _expand_mv(ref, cam)[0]
        if not _same(got, exp):
            raise Violation("payload", "camera", f"camera decodes to {got}, multivector is {exp}")

    def check_payload(when):
        got = decode(list(w.subjects), k2i)
        exp = sc.expected_root(root if rootfunc else sc.subjects, rootfunc)
        if not _same(got, exp, 1e-12):
            raise Violation("payload", "subjects", f"{when}: decoded subjects differ from the multivectors given.\n decoded : {got}\n expected: {exp}\n "
                            f"raw payload: {repr(list(w.subjects))[:600]}", decoded=repr(got)[:1500], expected=repr(exp)[:1500])

    check_payload("initial payload")
    # drag history --------------------------------------------------------------------------------------------------
    ndrags = 0
    touched = set()
    if case["steps"]:
        idxs = list(w.draggable_points_idxs)
        pre = sc.subjects
        view = _resolve(pre) if rootfunc else pre      # what the widget sees at the first level
        exp_idxs = [j for j, s in enumerate(view) if isinstance(s, kd.MultiVector) and
                    (not (ref.sig.count(0) == 1 and d in (3, 4)) or tuple(sorted({pc(k) for k in s.keys()})) == (d - 1,))]
        if idxs != exp_idxs:
            raise Violation("drag", "draggable_points_idxs", f"draggable_points_idxs = {idxs}, the multivectors at the first level sit at {exp_idxs}")
        persistent = [j for j in idxs if isinstance(pre[j], kd.MultiVector)]     # derived first-level values are not dragged
        model = {j: dict(zip(pre[j].keys(), [float(v) for v in pre[j].values()])) for j in persistent}
        ids = {j: id(pre[j]) for j in persistent}
        containers = {j: pre[j].values() for j in persistent}       # the coefficient list / ndarray the user handed over
        cidx = {k: i for i, k in enumerate(ref.canon_keys)}
        for step in case["steps"]:
            if step["k"] == "update":
                try:
                    w._handle_custom_msg({"type": "update_mvs"}, [])
                except Exception as e:
                    raise Violation("drag", "update_mvs", f"update_mvs raised {type(e).__name__}: {e}", exc=type(e).__name__)
                check_payload("after update_mvs")
                continue
            if not persistent:
                continue
            # the front end sends the CURRENT element of every draggable point; the dragged one(s) carry new values
            moved = [persistent[step["which"] % len(persistent)]]
            if step["also"] and len(persistent) > 1:
                moved.append(persistent[(step["which"] + 1) % len(persistent)])
            payload = []
            for j in idxs:
                if j not in model:
                    payload.append({"mv": _expand_mv(ref, pre[j].value())[0]})     # derived value as currently displayed
                    continue
                if j in moved:
                    vec = [float(frac(v)) + (0.25 if j != moved[0] else 0.0) for v in step["vals"]]
                    for k in model[j]:
                        model[j][k] = vec[cidx[k]]
                    touched.add(j)
                else:
                    vec = [0.0] * len(cidx)
                    for k, v in model[j].items():
                        vec[cidx[k]] = v
                payload.append({"mv": vec})
            try:
                w.draggable_points = payload
            except Exception as e:
                raise Violation("drag", "draggable_points", f"assigning the drag update raised {type(e).__name__}: {e}", exc=type(e).__name__)
            ndrags += 1
            for j in persistent:
                obj = pre[j]
                if id(obj) != ids[j] or (sc.subjects[j] is not obj):
                    raise Violation("drag", "in-place", f"subject {j} was replaced instead of being updated in place")
                if obj.values() is not containers[j]:
                    raise Violation("drag", "in-place", f"the coefficient container ({type(containers[j]).__name__}) of subject {j} was replaced by a new "
                                    f"{type(obj.values()).__name__} instead of being overwritten in place (anything sharing the original storage no longer follows)")
                cur = dict(zip(obj.keys(), [float(v) for v in obj.values()]))
                if cur != model[j]:
                    raise Violation("drag", "write-back", f"after dragging subject(s) {moved} with canonical-order values "
                                    f"{payload[idxs.index(moved[0])]['mv']}: subject {j} (keys {list(obj.keys())}) holds {cur}, expected {model[j]}",
                                    observed=repr(cur), expected=repr(model[j]))
            check_payload(f"after drag of subject(s) {moved}")
        labels.append("drags>=1" if ndrags else "drags:0")
    depth2 = any(s["t"] in ("list", "tuple") and any(x["t"] in ("list", "tuple", "callable") for x in s["items"]) for s in specs)
    nontrivial = ("has:dense-noncanonical" in labels) or ("has:array" in labels) or depth2 or len(touched) >= 2
    return Info(nontrivial, labels, case, {"drags": ndrags})


def _walk_specs(spec):
    yield spec
    if spec["t"] in ("list", "tuple"):
        for s in spec["items"]:
            yield from _walk_specs(s)
    if spec["t"] == "callable":
        yield from _walk_specs(spec["value"])


FINDING_PREDICATES = {}

MANIFEST_META = {
    "technique": "property-based testing with a transcribed decoder as oracle + model-based drag histories (Hypothesis): generated "
                 "nested scenes and sequences of front-end drag updates / update_mvs messages against a dict model of the multivectors",
    "level_text": "Generated nested subject trees (colours, strings, sparse / dense-canonical / dense-binary / permuted / array-valued, "
                  "list- and ndarray-backed multivectors, lists, tuples, callables incl. ones that depend on draggable points, camera "
                  "option, single-callable root) are encoded by the widget and decoded by a transcription of graph.js; every reachable "
                  "multivector must reproduce its coefficient on every blade, and signature / Cayley table / key2idx must describe the "
                  "algebra. Drag histories shaped as the front end sends them must overwrite exactly the stored coefficients of the "
                  "dragged multivectors in place and re-evaluate dependent callables."
                  " The coefficient container handed over by the user (list or ndarray) must itself be overwritten by a drag, not replaced.",
    "level_note": "The JavaScript front end is not executed (no JS engine, no network): its 12 lines of decoding are transcribed; this is "
                  "the stated trusted base together with kv.refalg.",
}
