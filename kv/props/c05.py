"""C05 -- duality maps invert each other and define the regressive product."""
from __future__ import annotations
import os
from fractions import Fraction

from hypothesis import strategies as st

from ..core import Violation, Info, frac
from ..refalg import RefAlgebra
from ..refops import R, pc, clean
from ..ring import Q
from .. import strategies as S
from .. import kd

ID = "C05"
KINDS = ["hodge", "axiom", "polarity", "rp", "rp-identity", "select"]
RULE = ("case = (algebra config d<=7 (d=7: lazily filled sign table, <=6 stored blades): every kind of signature incl. r=0, r=1, r>=2, default / random custom / named bases "
        "whose pseudoscalar may be spelled with odd parity, kind in {hodge round trip, blade axiom E^hodge(E)=pss, polarity, "
        "regressive product, pss identity, dual()/undual() selection}, ordered key tuples, generic or Fraction coefficients). "
        "Non-trivial = d>=2 and the operand stores >= 2 grades (for the blade axiom: a blade of grade 1..d-1). "
        "distinct = hash(config, kind, keys, mode).")
ASSUMPTIONS = [
    "axioms only: unhodge(hodge x)=x=hodge(unhodge x); E^hodge(E) = the algebra's own pss; polarity(x) = x*pss.inv(); "
    "a&b = unhodge(hodge a ^ hodge b) computed with kingdon's own hodge/op; pss&x = x = x&pss",
    "differential: hodge/unhodge/polarity/unpolarity/rp also compared with kv.refops built on the independent sign table",
    "polarity must raise ZeroDivisionError exactly when the generated signature contains a 0",
    "dual()/undual() with kind='auto': polarity for r=0, Hodge for r=1; r>=2 is generated but only counted (the statement "
    "says nothing about it)",
]
REQUIRED_LABELS = {"r:0": 0.15, "r:1": 0.1, "r:2+": 0.05, "basis:custom": 0.1}


def budget(tier):
    n = int(os.environ.get("KV_EXAMPLES", 0)) or (15000 if tier == "quick" else 70000)
    return {"examples": n, "shards": 8 if tier == "quick" else 16, "wall": 80 if tier == "quick" else 700}


@st.composite
def _cases(draw, dmax):
    kind = draw(st.sampled_from(KINDS))
    cfg = draw(S.configs(0, 7, custom=0.3, named=True, dweights=[0, 1, 2, 2, 3, 3, 3, 4, 4, 4, 5, 6, 7]))
    d = len(cfg["sig"])
    if cfg.get("basis") and d > 5 and not cfg.get("named"):
        cfg["basis"] = None
    cap = None if d <= 4 else ((12 if kind in ("rp", "polarity") else 24) if d <= 6 else 6)
    a = draw(S.operand(d, max_len=cap))
    b = draw(S.operand(d, max_len=cap)) if kind == "rp" else None
    return {"cfg": cfg, "kind": kind, "a": a, "b": b, "mode": draw(st.sampled_from(["generic", "frac", "typed", "symhidden"])),
            "undual": draw(st.booleans())}


def cases(tier):
    return _cases(6)


T_VALUE = Fraction(3, 7)


def _hidden(opnd, prefix):
    """sympy coefficients: every third one is a 'hidden zero' (t*(t+1) - (t**2+t): truthy as an expression, identically 0), the
    others are t+n or plain numbers.  The element they denote is obtained by substituting t = 3/7."""
    import sympy
    t = sympy.Symbol("t")
    out = []
    off = 0 if prefix == "a" else 1
    for i, v in enumerate(opnd["vals"]):
        n = frac(v)
        c = sympy.Rational(n.numerator, n.denominator)
        if (i + off) % 3 == 0:
            out.append((c + 1) * (t * (t + 1) - (t ** 2 + t)))
        elif (i + off) % 3 == 1:
            out.append(t + c)
        else:
            out.append(c * t if c != 0 else sympy.Integer(2))
    return out


def _concrete(dct):
    """Substitute t = 3/7 into sympy coefficients (exact)."""
    out = {}
    for k, v in dct.items():
        if hasattr(v, "free_symbols"):
            import sympy
            w = sympy.nsimplify(v.subs({s_: sympy.Rational(T_VALUE.numerator, T_VALUE.denominator) for s_ in v.free_symbols}))
            w = sympy.simplify(w)
            if w.is_Rational:
                v = Fraction(int(w.p), int(w.q))
            else:
                v = complex(w) if not w.is_real else float(w)
        out[k] = v
    return out


def _values(opnd, mode, prefix):
    if mode == "symhidden":
        return _hidden(opnd, prefix)
    if mode == "generic":
        return [Q.var(f"{prefix}{k}") for k in opnd["keys"]]
    if mode == "typed" and opnd.get("tvals"):
        from .. import values as V
        return V.decode(opnd["tvals"])
    return [frac(v) for v in opnd["vals"]]


def _call(fn, clause, op):
    try:
        return fn()
    except Violation:
        raise
    except Exception as e:
        raise Violation(clause, op, f"raised {type(e).__name__}: {e}", exc=type(e).__name__)


def _expect(got, exp, clause, op, what):
    got, exp = _concrete(got), _concrete(exp)
    ok, why = kd.elem_equal(got, exp)
    if not ok:
        raise Violation(clause, op, f"{what}: {why}", observed=kd.show(got), expected=kd.show(exp))


def evaluate(case):
    cfg, kind = case["cfg"], case["kind"]
    ref = RefAlgebra(cfg)
    Rr = R(ref.d, ref.T)
    alg = kd.build_algebra(cfg)
    d = ref.d
    r = ref.sig.count(0)
    if case["mode"] == "symhidden" and (d > 4 or len(case["a"]["keys"]) > 8 or (case["b"] and len(case["b"]["keys"]) > 8)):
        case = dict(case, mode="frac")      # cost cap of the sympy path
    ka = case["a"]["keys"]
    va = _values(case["a"], case["mode"], "a")
    x = kd.mk(alg, ka, va)
    da = _concrete(dict(zip(ka, va)))
    counters = {}
    nontrivial = d >= 2 and len({pc(k) for k in ka}) >= 2
    if kind == "hodge":
        h = _call(lambda: x.hodge(), "hodge-roundtrip", "hodge")
        _expect(kd.to_dict(h, op="hodge"), Rr.hodge(da), "hodge-value", "hodge", "hodge(x) vs reference")
        _expect(kd.to_dict(_call(lambda: h.unhodge(), "hodge-roundtrip", "unhodge"), op="unhodge"), da,
                "hodge-roundtrip", "unhodge", "unhodge(hodge(x))")
        u = _call(lambda: x.unhodge(), "hodge-roundtrip", "unhodge")
        _expect(kd.to_dict(u, op="unhodge"), Rr.unhodge(da), "hodge-value", "unhodge", "unhodge(x) vs reference")
        _expect(kd.to_dict(_call(lambda: u.hodge(), "hodge-roundtrip", "hodge"), op="hodge"), da,
                "hodge-roundtrip", "hodge", "hodge(unhodge(x))")
    elif kind == "axiom":
        pss = kd.to_dict(alg.pss, op="pss")
        if set(k for k, v in pss.items() if v != 0) != {ref.pss_key}:
            raise Violation("pss", "pss", f"alg.pss is not the top blade: {pss}")
        keys = ka if ka else [0]
        for k in keys[:16]:
            E = alg.blades[ref.bin2name[k]]
            w = _call(lambda: E ^ E.hodge(), "E^hodge(E)=pss", "hodge")
            _expect(kd.to_dict(w, op="op"), pss, "E^hodge(E)=pss", "hodge", f"E={ref.bin2name[k]}: E ^ hodge(E)")
        nontrivial = d >= 2 and any(0 < pc(k) < d for k in keys[:16])
    elif kind == "polarity":
        fwd, bwd = ("unpolarity", "polarity") if case["undual"] else ("polarity", "unpolarity")
        degenerate = r > 0
        try:
            p = x.polarity()
            raised = None
        except ZeroDivisionError as e:
            raised = e
        except Exception as e:
            raise Violation("polarity-returns", "polarity", f"raised {type(e).__name__}: {e}", exc=type(e).__name__)
        if degenerate and raised is None:
            raise Violation("polarity-raises-iff-degenerate", "polarity",
                            f"degenerate metric {ref.sig} but polarity returned {kd.show(kd.to_dict(p))}")
        if not degenerate and raised is not None:
            raise Violation("polarity-raises-iff-degenerate", "polarity", f"non-degenerate metric {ref.sig} but ZeroDivisionError")
        counters["polarity:raised" if raised else "polarity:returned"] = 1
        if not degenerate:
            _expect(kd.to_dict(p, op="polarity"), Rr.polarity(da), "polarity-value", "polarity", "polarity(x) vs reference")
            pinv = _call(lambda: alg.pss.inv(), "polarity=x*pss.inv()", "inv")
            _expect(kd.to_dict(p, op="polarity"), kd.to_dict(_call(lambda: x * pinv, "polarity=x*pss.inv()", "gp")),
                    "polarity=x*pss.inv()", "polarity", "polarity(x) vs x*pss.inv()")
            f = _call(lambda: getattr(x, fwd)(), "polarity-roundtrip", fwd)
            _expect(kd.to_dict(_call(lambda: getattr(f, bwd)(), "polarity-roundtrip", bwd), op=bwd), da,
                    "polarity-roundtrip", bwd, f"{bwd}({fwd}(x))")
            _expect(kd.to_dict(_call(lambda: x.unpolarity(), "polarity-value", "unpolarity"), op="unpolarity"),
                    Rr.unpolarity(da), "polarity-value", "unpolarity", "unpolarity(x) vs reference")
    elif kind == "rp":
        kb = case["b"]["keys"]
        vb = _values(case["b"], case["mode"], "b")
        y = kd.mk(alg, kb, vb)
        db = _concrete(dict(zip(kb, vb)))
        got = kd.to_dict(_call(lambda: x & y, "rp-definition", "rp"), op="rp")
        via = kd.to_dict(_call(lambda: (x.hodge() ^ y.hodge()).unhodge(), "rp-definition", "hodge"), op="unhodge")
        _expect(got, via, "rp-definition", "rp", "a & b vs unhodge(hodge(a) ^ hodge(b))")
        _expect(got, Rr.rp(da, db), "rp-value", "rp", "a & b vs reference")
        _expect(kd.to_dict(_call(lambda: x.rp(y), "rp-definition", "rp"), op="rp"), got, "rp-definition", "rp", "a.rp(b) vs a & b")
        nontrivial = d >= 2 and len({pc(k) for k in ka}) >= 2 and len(kb) >= 1 and bool(clean(Rr.rp(da, db)))
    elif kind == "rp-identity":
        pss = alg.pss
        _expect(kd.to_dict(_call(lambda: pss & x, "pss-identity", "rp"), op="rp"), da, "pss-identity", "rp", "pss & x")
        _expect(kd.to_dict(_call(lambda: x & pss, "pss-identity", "rp"), op="rp"), da, "pss-identity", "rp", "x & pss")
    elif kind == "select":
        name, hname, pname = ("undual", "unhodge", "unpolarity") if case["undual"] else ("dual", "hodge", "polarity")
        if r == 0:
            _expect(kd.to_dict(_call(lambda: getattr(x, name)(), "dual-selection", name), op=name),
                    kd.to_dict(getattr(x, pname)()), "dual-selection", name, f"{name}() on non-degenerate metric vs {pname}")
        elif r == 1:
            _expect(kd.to_dict(_call(lambda: getattr(x, name)(), "dual-selection", name), op=name),
                    kd.to_dict(getattr(x, hname)()), "dual-selection", name, f"{name}() with one null generator vs {hname}")
        else:
            try:
                getattr(x, name)()
                counters["select:r>=2 returned"] = 1
            except Exception:
                counters["select:r>=2 raised"] = 1
        if case["mode"] != "generic" and r <= 1:
            # the same selection rule inside a compiled (registered) function
            def f(a, _n=name):
                return getattr(a, _n)()
            _expect(kd.to_dict(_call(lambda: alg.register(f)(x), "dual-selection", name), op=name),
                    kd.to_dict(getattr(x, name)()), "dual-selection", name, f"alg.register(lambda a: a.{name}())(x) vs x.{name}()")
        _expect(kd.to_dict(_call(lambda: getattr(x, name)(kind="hodge"), "dual-selection", name), op=name),
                Rr.unhodge(da) if case["undual"] else Rr.hodge(da), "dual-selection", name, f"{name}(kind='hodge')")
        if r == 0:
            _expect(kd.to_dict(_call(lambda: getattr(x, name)(kind="polarity"), "dual-selection", name), op=name),
                    Rr.unpolarity(da) if case["undual"] else Rr.polarity(da), "dual-selection", name, f"{name}(kind='polarity')")
    # duality of SYMBOLIC operands (symbols a1, a2, a12 ...; duality permutes the blade order), evaluated by a keyword call
    if case["mode"] == "frac" and d <= 4 and 1 <= len(ka) <= 8 and kind in ("hodge", "rp", "select"):
        if kind == "hodge":
            progs = [("hodge(a)", lambda a: a.hodge(), [("a", ka, va)], Rr.hodge(da)),
                     ("unhodge(hodge(a))", lambda a: a.hodge().unhodge(), [("a", ka, va)], da)]
        elif kind == "rp":
            progs = [("a & b", lambda a, b: a & b, [("a", ka, va), ("b", case["b"]["keys"], _values(case["b"], case["mode"], "b"))], Rr.rp(da, db))] \
                if 1 <= len(case["b"]["keys"]) <= 8 else []
        else:
            nm = "undual" if case["undual"] else "dual"
            progs = [(f"{nm}(a)", lambda a: getattr(a, nm)(), [("a", ka, va)], None)] if r <= 1 else []
        for what, fn, opnds, expd in progs:
            if expd is None:
                expd = kd.to_dict(getattr(x, nm)())
            sc = kd.to_dict(_call(lambda: kd.sym_call(alg, fn, opnds), "hodge-value", kind), op=kind)
            _expect({k: kd.plain(v) for k, v in sc.items()}, expd, "hodge-value", kind, f"symbolic {what} (keys {ka}) called with keyword values")
        counters["checked:symbolic-keyword-call"] = 1
    labels = [f"kind:{kind}", f"d:{d}", "r:0" if r == 0 else ("r:1" if r == 1 else "r:2+"),
              "basis:custom" if cfg.get("basis") else "basis:default", f"mode:{case['mode']}"]
    if cfg.get("basis") and ref.orientation(ref.pss_key) < 0:
        labels.append("pss:odd-spelling")
    key = [cfg["sig"], cfg.get("start"), cfg.get("basis"), kind, ka, case["b"]["keys"] if case["b"] else None, case["mode"],
           case["undual"]]
    return Info(nontrivial, labels, key, counters)


FINDING_PREDICATES = {}

MANIFEST_META = {
    "technique": "property-based testing (Hypothesis): round-trip and axiom checks (E^hodge(E)=pss, polarity=x*pss^-1, "
                 "regressive product via Hodge) plus differential comparison with an independent reference algebra",
    "level_text": "Generated algebras (all signature kinds r=0/1/>=2, d<=6, default, random custom and named bases incl. odd "
                  "pseudoscalar spellings) and sparse operands with indeterminate coefficients are pushed through the duality "
                  "round trips, the blade axiom, the polarity/ZeroDivisionError clause, the regressive-product definition and "
                  "identity, and the dual()/undual() selection rule; every value is also compared with the reference."
                  " Symbolic operands (incl. hidden zeros) are dualised and the result called with keyword values.",
    "level_note": "Trusted: kv.refalg/kv.refops (hodge defined by the axiom), kv.ring.Q, Hypothesis. Sampling; d>6 not explored.",
}
