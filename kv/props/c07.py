"""C07 -- inverse and division are exact two-sided inverses wherever they return."""
from __future__ import annotations
import os
from fractions import Fraction as F

from hypothesis import strategies as st

from ..core import Violation, Info, frac, fstr
from ..refalg import RefAlgebra
from ..refops import R, pc, clean
from ..ring import Q
from .. import strategies as S
from .. import kd

ID = "C07"
RULE = ("a fixed list of 25 structural operands (blades multiplying to the pseudoscalar / commuting bivectors in d=6,7, "
        "non-simple homogeneous elements in d=4,5) is evaluated every run; generated: case = (algebra config d<=7 of every signature kind incl. custom bases for d<=4, kind in {inv, div, number/x, "
        "negative power}, operand built as: random sparse Fractions | product of <=3 invertible vectors | dominant scalar + "
        "small part | singular on purpose (null vector, 1+-e with e^2=+1, zero, nilpotent blade), stored canonical / permuted "
        "/ zero-padded; blade-count caps by dimension (d<=3 any, d=4: 8 quick / 12 thorough, d=5: 5 / 8, d=6: 4, d=7: 3); "
        "coefficients: Fractions (exact, d<=5), generic indeterminates (d<=4, sparse), floats built well conditioned (d>=6)). "
        "Non-trivial = invertible operand storing >= 2 grades, OR singular non-zero operand. "
        "distinct = hash(config, kind, operand spec, layout, mode).")
ASSUMPTIONS = [
    "invertibility and the inverse are decided by exact Gauss-Jordan elimination (Fractions) on the 2^d x 2^d "
    "left-multiplication matrix built from the independent sign table (kv.refops.R.inv); no Hitzer/Shirokov formula shared",
    "exact comparison for Fraction / generic coefficients in d<=5; for d>=6 kingdon's generated code contains float "
    "constants, compared at 1e-7 relative on operands constructed to be well conditioned (dominant scalar part |s|>=3, other coefficients <= 3/4); singular operands in d>=6 are "
    "only counted (float denominators need not be exactly 0)",
    "exceptions other than ZeroDivisionError are counted as raised_unspecified, not violations (the statement is silent)",
    "generic mode: a ZeroDivisionError is accepted only if the operand is singular at 3 fixed rational points (Schwartz-Zippel)",
]
TOLERANCE = "exact for Fraction/generic in d<=5; 1e-7 relative (scaled by max |expected|) for d>=6 on dominant-scalar operands"
REQUIRED_LABELS = {"class:singular": 0.12, "layout:permuted": 0.08, "kind:div": 0.08}


def budget(tier):
    n = int(os.environ.get("KV_EXAMPLES", 0)) or (3200 if tier == "quick" else 16000)
    return {"examples": n, "shards": 16, "wall": 100 if tier == "quick" else 1200}


CAPS = {"quick": {0: 1, 1: 2, 2: 4, 3: 8, 4: 8, 5: 5, 6: 4, 7: 3}, "thorough": {0: 1, 1: 2, 2: 4, 3: 8, 4: 12, 5: 8, 6: 5, 7: 3}}


@st.composite
def _vec(draw, d, nonnull_only=None):
    idx = draw(st.lists(st.integers(0, d - 1), unique=True, min_size=1, max_size=min(d, 3)))
    return {str(1 << i): draw(S.fracs(nonzero=True)) for i in idx}


@st.composite
def _operand_spec(draw, d, cap, sig):
    n = 2 ** d
    cls = draw(st.sampled_from(["random", "random", "puregrade", "puregrade", "versor", "dominant", "singular", "singular"]))
    if d == 0:
        cls = draw(st.sampled_from(["random", "singular"]))
    if d >= 6 and cls in ("random", "versor", "puregrade"):
        # the generated d>=6 inverse is an expanded degree-2^ceil(d/2) polynomial with float constants: operands whose
        # norm-like invariant is small relative to their coefficients lose digits by cancellation (measured 1e-6 for
        # 1+e1+e2/3 in d=7), which is rounding, not a defect -> only well-conditioned operands are generated here
        cls = "dominant"
    if cls == "puregrade":
        # homogeneous elements (bivectors, trivectors ...) incl. non-simple ones such as e12+e34, optionally plus a scalar
        g = draw(st.integers(1, max(1, d - 1)))
        blades = [k for k in range(n) if bin(k).count("1") == g]
        idx = draw(st.lists(st.integers(0, len(blades) - 1), unique=True, min_size=1, max_size=max(1, min(cap, len(blades)))))
        el = {str(blades[i]): draw(S.fracs(nonzero=True)) for i in idx}
        if draw(st.integers(0, 3)) == 0 and len(el) < cap:
            el["0"] = draw(S.fracs(nonzero=True))
        return {"cls": "random", "sub": "puregrade", "elem": el}
    if cls == "random":
        ks = draw(st.lists(st.integers(0, n - 1), unique=True, min_size=1, max_size=max(1, cap)))
        return {"cls": cls, "elem": {str(k): draw(S.fracs(nonzero=True)) for k in ks}}
    if cls == "versor":
        return {"cls": cls, "vectors": [draw(_vec(d)) for _ in range(draw(st.integers(1, 3 if d <= 4 else 2)))]}
    if cls == "dominant":
        ks = draw(st.lists(st.integers(1, n - 1), unique=True, min_size=1, max_size=max(1, cap - 1)))
        el = {str(k): fstr(F(draw(st.integers(-3, 3)), draw(st.sampled_from([4, 5, 7, 8])))) for k in ks}
        el["0"] = str(draw(st.sampled_from([3, -3, 5, -4, 7])))
        return {"cls": cls, "elem": el}
    kind = draw(st.sampled_from(["zero", "null", "idem", "nilpotent", "emptymv"]))
    return {"cls": "singular", "skind": kind, "i": draw(st.integers(0, max(0, d - 1))), "j": draw(st.integers(0, max(0, d - 1))),
            "k": draw(st.integers(0, n - 1)), "c": draw(S.fracs(nonzero=True))}


@st.composite
def _cases(draw, tier):
    kind = draw(st.sampled_from(["inv", "inv", "inv", "div", "rdiv", "pow"]))
    dweights = [0, 1, 2, 2, 3, 3, 3, 4, 4, 4, 5, 5, 6, 7]
    cfg = draw(S.configs(0, 7, custom=0.15, dweights=dweights))
    d = len(cfg["sig"])
    if cfg.get("basis") and d > 4:
        cfg["basis"] = None
    cap = CAPS[tier][d]
    spec = draw(_operand_spec(d, cap, cfg["sig"]))
    mode = "frac"
    if d <= 4 and spec["cls"] == "random" and len(spec["elem"]) <= (4 if d == 4 else 5) and draw(st.integers(0, 3)) == 0:
        mode = "generic"
    elif d <= 5 and spec["cls"] in ("random", "dominant") and draw(st.integers(0, 4)) == 0:
        mode = "complex"      # complex coefficients (a + b*i with b != 0), e.g. a single complex blade
    case = {"cfg": cfg, "kind": kind, "x": spec, "mode": mode,
            "layout": draw(st.sampled_from(["canonical", "canonical", "permuted", "padded", "padded+permuted"])),
            "pad": draw(st.lists(st.integers(0, 2 ** d - 1), unique=True, max_size=3 if d <= 4 else 1)),
            "rot": draw(st.integers(1, 5))}
    if kind == "div":
        case["num"] = draw(S.operand(d, classes=["single", "sparse", "perm", "gradeblock"], max_len=min(cap, 6)))
    if kind == "rdiv":
        case["number"] = draw(S.fracs(nonzero=True))
    if kind == "pow":
        case["n"] = draw(st.integers(1, 3))
    return case


def cases(tier):
    return _cases(tier)


def enumerate_cases(tier):
    """Hand-picked structural operands that random sparse draws rarely hit: elements whose blades multiply to the
    pseudoscalar / commuting bivectors (generic spectrum) in the dimensions served by the iterative scheme, and non-simple
    homogeneous elements for the closed forms.  Values are not units so that scaling errors show."""
    def mk(sig, elem, kind="inv", layout="canonical"):
        c = {"cfg": {"sig": sig, "start": None, "basis": None}, "kind": kind, "x": {"cls": "random", "elem": elem}, "mode": "frac",
             "layout": layout, "pad": [], "rot": 1, "structural": True}
        if kind == "rdiv":
            c["number"] = "3"
        return c
    yield mk([1] * 7, {"1": "1", "6": "2", "24": "1/2", "96": "3"})
    yield mk([1, 1, 1, -1, -1, 1, 1], {"3": "1", "12": "2", "48": "1/2", "64": "3"}, layout="permuted")
    yield mk([1] * 6, {"3": "2", "12": "3", "48": "1/2"})
    yield mk([1, -1, 1, -1, 1, 1], {"0": "2", "3": "1", "12": "3", "48": "1/2"}, kind="rdiv")
    yield mk([1] * 6, {"7": "2", "56": "3"})
    for sig in ([1, 1, 1, 1], [0, 1, 1, 1], [1, 1, -1, -1], [1, 1, 1, 1, 1], [0, 1, 1, 1, -1]):
        d = len(sig)
        yield mk(sig, {"3": "2", "12": "3"})
        yield mk(sig, {"0": "1", "3": "2", "12": "3"}, layout="permuted")
        yield mk(sig, {"5": "2", "10": "3", "12": "1/2"})
        if d == 5:
            yield mk(sig, {"7": "2", "24": "3"})
            yield mk(sig, {"3": "1", "12": "2", "17": "3", "0": "1/2"})


def _build_elem(spec, ref, Rr):
    """Operand element (dict key->Fraction) from its spec."""
    d = ref.d
    if spec["cls"] in ("random", "dominant"):
        return {int(k): frac(v) for k, v in spec["elem"].items()}
    if spec["cls"] == "versor":
        out = {0: F(1)}
        for v in spec["vectors"]:
            out = Rr.gp(out, {int(k): frac(c) for k, c in v.items()})
        return out   # may contain zeros / be singular if a vector is null: the reference decides
    sk, c = spec["skind"], frac(spec["c"])
    if sk == "emptymv" or d == 0 and sk != "zero":
        return {} if sk == "emptymv" else {0: F(0)}
    if sk == "zero":
        return {spec["k"]: F(0)}
    i, j = spec["i"] % d, spec["j"] % d
    if sk == "null":
        zero = [g for g in range(d) if ref.sig[int(ref.gens[g], 16) - ref.start] == 0]
        pos = [g for g in range(d) if ref.metric[ref.gens[g]] == 1]
        neg = [g for g in range(d) if ref.metric[ref.gens[g]] == -1]
        if zero:
            return {1 << zero[i % len(zero)]: c}
        if pos and neg:
            return {1 << pos[i % len(pos)]: c, 1 << neg[j % len(neg)]: c}
        return {spec["k"]: F(0)}
    if sk == "idem":
        # 1 +- E with E^2 = +1
        for k in list(range(spec["k"], 2 ** d)) + list(range(1, spec["k"])):
            if k and ref.T(k, k) == 1:
                return {0: c, k: c if i % 2 else -c}
        return {spec["k"]: F(0)}
    if sk == "nilpotent":
        for k in list(range(spec["k"], 2 ** d)) + list(range(1, spec["k"])):
            if k and ref.T(k, k) == 0:
                return {k: c}
        return {spec["k"]: F(0)}
    raise KeyError(sk)


def _layout(elem, case, d):
    keys = sorted(elem, key=lambda k: (pc(k), k))
    vals = [elem[k] for k in keys]
    lay = case["layout"]
    if "padded" in lay:
        for k in case["pad"]:
            if k not in keys and k < 2 ** d:
                keys.append(k)
                vals.append(F(0))
        order = sorted(range(len(keys)), key=lambda i: (pc(keys[i]), keys[i]))
        keys, vals = [keys[i] for i in order], [vals[i] for i in order]
    if "permuted" in lay and len(keys) > 1:
        r = case["rot"] % len(keys) or 1
        keys, vals = keys[r:] + keys[:r], vals[r:] + vals[:r]
        if r % 2:
            keys, vals = keys[::-1], vals[::-1]
    return keys, vals


POINTS = [F(2), F(-3, 2), F(5, 3), F(7), F(-1, 4), F(11, 5), F(-9, 7), F(13, 2)]


def evaluate(case):
    cfg, kind, mode = case["cfg"], case["kind"], case["mode"]
    ref = RefAlgebra(cfg)
    d = ref.d
    Rr = R(d, ref.T)
    alg = kd.build_algebra(cfg)
    # every case first inverts and divides by a scalar-only multivector on the same algebra (the most common use); both the
    # warm-up and everything after it must be right
    two = kd.mk(alg, [0], [F(2)])
    try:
        w = kd.to_dict(two.inv(), op="inv")
        w2 = kd.to_dict(kd.mk(alg, [0], [F(6)]) / two, op="div")
    except Exception as e:
        raise Violation("two-sided-inverse", "inv", f"inverse / division of the scalar multivector 2 raised {type(e).__name__}: {e}", exc=type(e).__name__)
    for got_, exp_, what in ((w, {0: F(1, 2)}, "2.inv()"), (w2, {0: F(3)}, "6 / 2")):
        ok, why = kd.elem_equal(got_, exp_, 1e-12 if d >= 6 else None)
        if not ok:
            raise Violation("two-sided-inverse", "inv", f"scalar multivector: {what}: {why}")
    # ... and must not have touched the algebra's shared unit blade
    try:
        unit = kd.to_dict(alg.blades["e"], op="blades")
    except Exception as e:
        raise Violation("two-sided-inverse", "inv", f"alg.blades['e'] after 2.inv() raised {type(e).__name__}: {e}", exc=type(e).__name__)
    if not (set(unit) == {0} and unit[0] == 1):
        raise Violation("two-sided-inverse", "inv", f"after 2.inv() and 6/2 the unit blade alg.blades['e'] reads {unit!r} instead of 1 (signature {ref.sig})")
    elem = _build_elem(case["x"], ref, Rr)
    keys, vals = _layout(elem, case, d)
    floatmode = d >= 6
    if mode == "generic":
        vals = [Q.var(f"x{k}") if v != 0 else v for k, v in zip(keys, vals)]
    if mode == "complex":
        vals = [complex(float(v), float(v) / 2 + 1) if v != 0 else 0j for v in vals]
    x = kd.mk(alg, keys, vals)
    dx = dict(zip(keys, vals))
    counters = {}
    one = {0: F(1)}
    # reference verdict
    if mode == "generic":
        rinv = "generic"
        singular = None
    elif mode == "complex":
        rinv = "complex"          # no exact reference: the two-sided identity decides (tolerance 1e-9)
        singular = None
    else:
        rinv = Rr.inv(clean(dx))
        singular = rinv is None
    labels = [f"kind:{kind}", f"d:{d}", f"mode:{'float' if floatmode else mode}", f"class:{case['x']['cls']}",
              "layout:permuted" if "permuted" in case["layout"] else ("layout:padded" if "padded" in case["layout"] else "layout:canonical")]
    nontrivial = (singular is False and len({pc(k) for k, v in dx.items() if v != 0}) >= 2) or \
                 (singular is True and bool(clean(dx))) or (mode == "generic" and len(keys) >= 2)
    key = [cfg["sig"], cfg.get("start"), cfg.get("basis"), kind, case["x"], case["layout"], case["pad"], case["rot"], mode,
           case.get("num"), case.get("number"), case.get("n")]

    def kcall(fn, what):
        """-> ('ok', value) | ('zde', exc) | ('other', exc)"""
        try:
            return "ok", fn()
        except ZeroDivisionError as e:
            return "zde", e
        except Exception as e:
            return "other", e

    st_, xinv = kcall(lambda: x.inv(), "x.inv()")
    if st_ == "other":
        counters[f"raised_unspecified:{type(xinv).__name__}"] = 1
        return Info(False, labels + ["raised:other"], key, counters)
    if st_ == "zde":
        if mode == "complex":
            counters["zde_complex_unchecked"] = 1
            return Info(False, labels + ["raised:ZeroDivisionError"], key, counters)
        if mode == "generic":
            # accept only if singular at sample points
            for shift in range(3):
                sub = {k: (POINTS[(i + shift) % len(POINTS)] if isinstance(v, Q) else v) for i, (k, v) in enumerate(dx.items())}
                if Rr.inv(clean(sub)) is not None:
                    raise Violation("zerodivision-only-if-singular", "inv", f"ZeroDivisionError for a generic operand on blades "
                                    f"{keys} that is invertible at {kd.show(sub)}", exc="ZeroDivisionError")
        elif not singular:
            raise Violation("zerodivision-only-if-singular", "inv", f"x.inv() raised ZeroDivisionError but x = {kd.show(dx)} has the "
                            f"inverse {kd.show(rinv)} (signature {ref.sig})", exc="ZeroDivisionError", operand=kd.show(dx))
        labels.append("raised:ZeroDivisionError")
        counters["zde_on_singular"] = 1
        if kind == "div":
            num = kd.mk(alg, case["num"]["keys"], [frac(v) for v in case["num"]["vals"]])
            s2, q = kcall(lambda: num / x, "a / x")
            if s2 == "ok" and not floatmode:
                raise Violation("div=a*inv(b)", "div", f"a / b returned {kd.show(kd.to_dict(q))} although b.inv() raises ZeroDivisionError "
                                f"(b = {kd.show(dx)} is singular)")
        return Info(nontrivial, labels + ["class:singular"] if "class:singular" not in labels else labels, key, counters)
    # returned
    gi = kd.to_dict(xinv, op="inv")
    if singular and floatmode:
        counters["singular_float_returned"] = 1
        return Info(False, labels, key, counters)
    tol = 1e-7 if floatmode else (1e-9 if mode == "complex" else None)
    for side, fn in (("x*x.inv()", lambda: x * xinv), ("x.inv()*x", lambda: xinv * x)):
        s2, p = kcall(fn, side)
        if s2 != "ok":
            raise Violation("two-sided-inverse", "inv", f"{side} raised {type(p).__name__}: {p}", exc=type(p).__name__)
        ok, why = kd.elem_equal(kd.to_dict(p, op="gp"), one, tol)
        if not ok:
            extra = " (the reference says x is singular)" if singular else ""
            raise Violation("two-sided-inverse", "inv", f"{side} != 1 for x = {kd.show(dx)} in signature {ref.sig}: {why}{extra}",
                            operand=kd.show(dx), inverse=kd.show(gi))
    if rinv not in (None, "generic", "complex"):
        ok, why = kd.elem_equal(gi, rinv, tol)
        if not ok:
            raise Violation("two-sided-inverse", "inv", f"x.inv() differs from the exact inverse: {why}", observed=kd.show(gi), expected=kd.show(rinv))
    # the same element in a graded algebra (stored as complete grades, zero-padded): same inverse
    if mode == "frac" and d <= 4 and not cfg.get("basis") and rinv not in (None, "generic", "complex"):
        cdx = clean(dx)
        gk = list(ref.keys_of_grades(sorted({pc(k) for k in cdx}))) if cdx else []
        if gk and len(gk) <= 11:
            galg = kd.build_algebra(cfg, graded=True)
            gx = kd.mk(galg, gk, [cdx.get(k, F(0)) for k in gk])
            sg, ginv = kcall(lambda: gx.inv(), "graded x.inv()")
            if sg != "ok":
                raise Violation("two-sided-inverse", "inv", f"graded algebra: x.inv() raised {type(ginv).__name__}: {ginv} for the invertible "
                                f"x = {kd.show(cdx)} stored as complete grades (signature {ref.sig})", exc=type(ginv).__name__)
            ok, why = kd.elem_equal(kd.to_dict(ginv, op="inv"), rinv)
            if not ok:
                raise Violation("two-sided-inverse", "inv", f"graded algebra: x.inv() of x = {kd.show(cdx)} stored as complete grades {gk} "
                                f"(signature {ref.sig}) differs from the exact inverse: {why}", observed=kd.show(kd.to_dict(ginv)), expected=kd.show(rinv))
            counters["checked:graded-twin"] = 1
    # the empty multivector as numerator: 0 / x = 0 * x.inv() = 0
    for what, fn in (("empty / x", lambda: kd.mk(alg, [], []) / x), ("alg.div(empty, x)", lambda: alg.div(kd.mk(alg, [], []), x))):
        s0, q0 = kcall(fn, what)
        if s0 != "ok":
            raise Violation("div=a*inv(b)", "div", f"{what} raised {type(q0).__name__}: {q0} although x.inv() returned", exc=type(q0).__name__)
        ok, why = kd.elem_equal(kd.to_dict(q0, op="div"), {}, tol)
        if not ok:
            raise Violation("div=a*inv(b)", "div", f"{what} (numerator stores no blade) != 0 = empty * x.inv(): {why}", observed=kd.show(kd.to_dict(q0)))
    counters["checked:empty-numerator"] = 1
    # chains inside a symbolically registered function: the operand of the second inverse has rational-function coefficients
    if mode == "frac" and d <= 2 and len(keys) <= 3:
        def f_invinv(a):
            return a.inv().inv()

        def f_yyinv(a):
            y = a.inv()
            return y * y.inv()

        def f_div(a):
            return 3 / a.inv()
        for fn, exp_, what in ((f_invinv, clean(dx), "x.inv().inv() == x"), (f_yyinv, one, "y*y.inv() == 1 for y = x.inv()"),
                               (f_div, {k: 3 * v for k, v in clean(dx).items()}, "3 / x.inv() == 3*x")):
            s5, q5 = kcall(lambda: alg.register(fn, symbolic=True)(x), what)
            if s5 == "zde":
                counters["chain:zde"] = counters.get("chain:zde", 0) + 1
                continue
            if s5 != "ok":
                raise Violation("two-sided-inverse", "inv", f"register(symbolic=True): {what} raised {type(q5).__name__}: {q5}", exc=type(q5).__name__)
            ok, why = kd.elem_equal(kd.to_dict(q5, op="inv"), exp_, tol)
            if not ok:
                raise Violation("two-sided-inverse", "inv", f"inside alg.register(symbolic=True): {what} fails for x = {kd.show(dx)} in signature {ref.sig}: {why}",
                                observed=kd.show(kd.to_dict(q5)))
            counters["checked:symbolic-chain"] = counters.get("checked:symbolic-chain", 0) + 1
    # derived forms
    if kind == "div":
        ka, va = case["num"]["keys"], [frac(v) for v in case["num"]["vals"]]
        a = kd.mk(alg, ka, va)
        s2, q = kcall(lambda: a / x, "a / x")
        if s2 != "ok":
            raise Violation("div=a*inv(b)", "div", f"a / b raised {type(q).__name__}: {q} although b.inv() returned", exc=type(q).__name__)
        own = kd.to_dict(a * xinv, op="gp")
        ok, why = kd.elem_equal(kd.to_dict(q, op="div"), own, tol or (1e-9 if mode != "generic" and False else None))
        if not ok:
            raise Violation("div=a*inv(b)", "div", f"a / b != a * b.inv(): {why}", observed=kd.show(kd.to_dict(q)), expected=kd.show(own))
        s3, q2 = kcall(lambda: a.div(x), "a.div(x)")
        if s3 != "ok" or not kd.elem_equal(kd.to_dict(q2, op="div"), own, tol)[0]:
            raise Violation("div=a*inv(b)", "div", "a.div(b) != a * b.inv()")
        # a list / a zero-argument callable on the left of '/': same value, same operand order
        for what, fn in (("[a] / b", lambda: ([a] / x)[0]), ("(lambda: a) / b", lambda: (lambda: a) / x)):
            s4, q4 = kcall(fn, what)
            if s4 != "ok":
                raise Violation("div=a*inv(b)", "div", f"{what} raised {type(q4).__name__}: {q4}", exc=type(q4).__name__)
            ok, why = kd.elem_equal(kd.to_dict(q4, op="div"), own, tol)
            if not ok:
                raise Violation("div=a*inv(b)", "div", f"{what} != a * b.inv(): {why}", observed=kd.show(kd.to_dict(q4)), expected=kd.show(own))
    elif kind == "rdiv":
        nmb = frac(case["number"])
        s2, q = kcall(lambda: nmb / x, "number / x")
        if s2 != "ok":
            raise Violation("number/x=number*inv(x)", "div", f"number / x raised {type(q).__name__}: {q}", exc=type(q).__name__)
        own = kd.to_dict(nmb * xinv, op="gp")
        ok, why = kd.elem_equal(kd.to_dict(q, op="div"), own, tol)
        if not ok:
            raise Violation("number/x=number*inv(x)", "div", f"{nmb} / x != {nmb} * x.inv(): {why}", observed=kd.show(kd.to_dict(q)), expected=kd.show(own))
    elif kind == "pow":
        n = case["n"]
        s2, q = kcall(lambda: x ** (-n), "x ** -n")
        if s2 != "ok":
            raise Violation("negative-power", "pow", f"x ** -{n} raised {type(q).__name__}: {q}", exc=type(q).__name__)
        acc = xinv
        for _ in range(n - 1):
            acc = acc * xinv
        ok, why = kd.elem_equal(kd.to_dict(q, op="pow"), kd.to_dict(acc, op="gp"), tol)
        if not ok:
            raise Violation("negative-power", "pow", f"x ** -{n} != (x.inv()) ** {n}: {why}")
    return Info(nontrivial, labels, key, counters)


FINDING_PREDICATES = {}

MANIFEST_META = {
    "technique": "property-based testing (Hypothesis) with an exact linear-algebra oracle: generated invertible and deliberately "
                 "singular operands, inverse decided by Gauss-Jordan over Fractions, generic-ring identity x*x^-1=1",
    "level_text": "Generated operands of every signature kind in d<=7 (closed forms d<=5, iterative scheme d=6,7), stored "
                  "canonically, permuted or zero-padded, incl. >=12% deliberately singular ones, are inverted; a returned value must "
                  "be a two-sided inverse (exactly for Fractions and for indeterminate coefficients in d<=4, to 1e-7 for d>=6) and "
                  "equal the exact inverse; ZeroDivisionError is accepted only when the exact elimination finds the operand singular; "
                  "a/b, number/x and negative powers are compared with products of the inverse."
                  " Also: the empty multivector as numerator, chains x.inv().inv() / y*y.inv() / 3/x.inv() inside register(symbolic=True), complex coefficients, list and callable numerators, and the algebra's cached unit blade must still read 1 after a scalar inverse."
                  " The same element stored as complete grades in a graded algebra must have the same inverse.",
    "level_note": "Trusted: kv.refops.R.inv (Gauss-Jordan on the left-multiplication matrix), kv.ring.Q. Blade-count caps by dimension "
                  "are cost limits (dense d=5 inverses take minutes to generate) and are listed in the evidence rule.",
}
