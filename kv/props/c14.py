"""C14 -- custom bases and start indices are a pure relabelling; operands of different algebras are rejected."""
from __future__ import annotations
import os
from fractions import Fraction as F

from hypothesis import strategies as st

from ..core import Violation, Info, frac
from ..refalg import RefAlgebra, perm_parity
from ..refops import pc, clean
from .. import strategies as S
from .. import kd

ID = "C14"
BIN = ["gp", "op", "ip", "lc", "rc", "sp", "cp", "acp", "add", "sub", "rp", "sw", "proj", "div"]
UN = ["neg", "reverse", "involute", "conjugate", "normsq", "hodge", "unhodge", "polarity", "unpolarity", "inv",
      "outerexp", "outersin", "outercos", "outertan"]
PSS_RELATIVE = {"hodge", "unhodge", "polarity", "unpolarity", "rp"}
FLOATY = {"outerexp", "outersin", "outercos", "outertan"}
RULE = ("relabelling: case = (custom-basis configuration d<=4 quick / d<=5 thorough: generator order x per-blade spelling x "
        "within-grade order x start index, or a named algebra 2DPGA/3DPGA/STAP; one of 28 operators or grade selection or "
        "coefficient access; ordered key tuples and Fraction values). The same computation is done in the default-basis "
        "algebra of the same signature by generator name on the relabelled operands; phi (named blade -> parity sign of its "
        "spelling x ascending blade) must commute (Hodge duals, regressive product and polarity w.r.t. phi(pss)). "
        "rejection: case = pair of algebras differing in ordered metric (d, (p,q,r), signature ordering) or in basis; every "
        "binary operator must raise. Non-trivial = relabelling case whose basis has an odd spelling or a non-identity "
        "generator order and whose result is non-zero; rejection case with equal (p,q,r). distinct = hash(case).")
ASSUMPTIONS = [
    "phi is computed by the harness from the basis list alone (parity of each spelling relative to the name-sorted word)",
    "the default-basis side is kingdon itself (decided by C01-C08); orientation rule for pss-relative operators: "
    "phi(op_c(x)) = s * op_d(phi x) with s the parity of the custom pseudoscalar spelling",
    "rejection clause asserted for pairs that differ in the ordered metric or the basis list; pairs that differ only in "
    "start_index or options are generated but only counted (the statement does not cover them)",
    "matrix representation of a custom-basis algebra: homomorphism and first column on sampled blade pairs (C18 has the full check)",
]
REQUIRED_LABELS = {"kind:relabel": 0.4, "kind:reject": 0.08, "basis:odd-spelling": 0.2}


def budget(tier):
    n = int(os.environ.get("KV_EXAMPLES", 0)) or (16000 if tier == "quick" else 60000)
    return {"examples": n, "shards": 16, "wall": 100 if tier == "quick" else 1200}


@st.composite
def _cases(draw, tier):
    kind = draw(st.sampled_from(["relabel", "relabel", "relabel", "access", "access", "matrix", "reject"]))
    if kind == "reject":
        return draw(_reject_case())
    dmax = 4 if tier == "quick" else 5
    if draw(st.integers(0, 7)) == 0:
        name = draw(st.sampled_from(["2DPGA", "3DPGA"] + (["STAP"] if tier == "thorough" else [])))
        cfg = {"sig": list(S.NAMED[name][0]), "start": None, "basis": list(S.NAMED[name][1]), "named": name}
    else:
        cfg = draw(S.configs(1, dmax, custom=1.0, starts=(None, 0, 1, 2), dweights=[1, 2, 2, 3, 3, 3, 4, 4] + [5] * (dmax >= 5)))
    d = len(cfg["sig"])
    if kind == "access":
        a = draw(S.operand(d, max_len=12))
        key = draw(st.integers(0, 2 ** d - 1))
        bits = [j for j in range(d) if key >> j & 1]
        # several spellings of the SAME blade, read one after the other on one algebra object
        return {"kind": kind, "cfg": cfg, "a": a, "spells": [list(draw(st.permutations(bits))) for _ in range(draw(st.integers(1, 4)))]}
    if kind == "matrix":
        n = 2 ** d
        return {"kind": kind, "cfg": cfg, "pairs": [list(p) for p in draw(st.lists(st.tuples(st.integers(0, n - 1), st.integers(0, n - 1)), min_size=3, max_size=12))],
                "a": draw(S.operand(d, max_len=8))}
    two = draw(st.sampled_from([True, True, False]))
    op = draw(st.sampled_from(BIN if two else UN + ["grade"]))
    heavy = op in ("inv", "div", "outertan", "sw", "proj")
    cap = (4 if d >= 4 else 6) if heavy else (10 if d >= 4 else None)
    a = draw(S.operand(d, max_len=cap, zero_prob=0.05))
    if op in FLOATY:
        kv = [(k, v) for k, v in zip(a["keys"], a["vals"]) if k != 0]
        a = {"cls": a["cls"], "keys": [k for k, _ in kv], "vals": [v for _, v in kv]}
    case = {"kind": kind, "cfg": cfg, "op": op, "a": a, "b": draw(S.operand(d, max_len=cap, zero_prob=0.05)) if two else None}
    if op == "grade":
        case["grades"] = sorted(draw(st.sets(st.integers(0, d), max_size=d + 1)))
    return case


@st.composite
def _reject_case(draw):
    how = draw(st.sampled_from(["sigorder", "sigorder", "pqr", "dim", "basis", "basis", "startonly", "optsonly"]))
    d = draw(st.integers(1, 3))
    sig = [draw(S.SIGN) for _ in range(d)]
    A = {"sig": sig, "start": None, "basis": None}
    B = {"sig": list(sig), "start": None, "basis": None}
    if how == "sigorder":
        d = max(d, 2)
        sig = [draw(S.SIGN) for _ in range(d)]
        i = draw(st.integers(0, d - 2))
        j = draw(st.integers(i + 1, d - 1))
        if sig[i] == sig[j]:
            sig[j] = {1: -1, -1: 0, 0: 1}[sig[i]]
        sb = list(sig)
        sb[i], sb[j] = sb[j], sb[i]
        A, B = {"sig": sig, "start": 1, "basis": None}, {"sig": sb, "start": 1, "basis": None}
    elif how == "pqr":
        sb = list(sig)
        i = draw(st.integers(0, d - 1))
        sb[i] = {1: -1, -1: 0, 0: 1}[sb[i]]
        B = {"sig": sb, "start": None, "basis": None}
    elif how == "dim":
        B = {"sig": sig + [draw(S.SIGN)], "start": None, "basis": None}
    elif how == "basis":
        d = max(d, 2)
        sig = [draw(S.SIGN) for _ in range(d)]
        start = 0 if sig.count(0) == 1 else 1
        ba = draw(S.custom_basis(d, start))
        bb = draw(S.custom_basis(d, start))
        if ba == bb:
            bb = list(RefAlgebra({"sig": sig, "start": start, "basis": None}).names)
            if ba == bb:
                bb = bb[:1] + bb[1:d + 1][::-1] + bb[d + 1:]
        A, B = {"sig": sig, "start": None, "basis": ba}, {"sig": list(sig), "start": None, "basis": bb}
    elif how == "startonly":
        A, B = {"sig": sig, "start": 0, "basis": None}, {"sig": list(sig), "start": 1, "basis": None}
    else:
        B = {"sig": list(sig), "start": None, "basis": None, "opts": {"cse": False}}
    dmin = min(len(A["sig"]), len(B["sig"]))
    ka = draw(st.lists(st.integers(0, 2 ** dmin - 1), unique=True, min_size=1, max_size=4))
    kb = draw(st.lists(st.integers(0, 2 ** dmin - 1), unique=True, min_size=1, max_size=4))
    return {"kind": "reject", "how": how, "A": A, "B": B, "ka": ka, "kb": kb, "op": draw(st.sampled_from(BIN)),
            "swap": draw(st.booleans())}


def cases(tier):
    return _cases(tier)


# ---------------------------------------------------------------------------------------------------------------------
class Phi:
    """The relabelling from a custom-basis configuration to the default basis of the same signature by generator name."""

    def __init__(self, cfg):
        self.refc = RefAlgebra(cfg)
        self.start = self.refc.start
        self.dcfg = {"sig": list(cfg["sig"]), "start": self.start, "basis": None}
        self.map = {}
        for name, key in self.refc.name2bin.items():
            word = [int(c, 16) for c in name[1:]]
            dkey = sum(1 << (g - self.start) for g in word)
            sign = -1 if perm_parity(word) else 1
            self.map[key] = (dkey, sign)
        self.s_pss = self.map[self.refc.pss_key][1]
        self.odd = any(s < 0 for _, s in self.map.values())
        self.reordered = self.refc.gens != sorted(self.refc.gens)

    def elem(self, m):
        return {self.map[k][0]: (v if self.map[k][1] > 0 else -v) for k, v in m.items()}

    def keys_vals(self, keys, vals):
        return [self.map[k][0] for k in keys], [(v if self.map[k][1] > 0 else -v) for k, v in zip(keys, vals)]


def _apply(op, x, y, grades=None):
    if op == "grade":
        return x.grade(tuple(grades))
    return getattr(x, op)(y) if y is not None else getattr(x, op)()


def _observe(fn):
    try:
        return "ok", fn()
    except Violation:
        raise
    except Exception as e:
        return "exc", f"{type(e).__name__}: {str(e)[:150]}"


def evaluate(case):
    if case["kind"] == "reject":
        return _evaluate_reject(case)
    cfg = case["cfg"]
    phi = Phi(cfg)
    try:
        algc = kd.build_algebra(cfg)
        algd = kd.build_algebra(phi.dcfg)
    except Exception as e:
        raise Violation("custom-basis-constructible", "Algebra", f"constructing the algebra for {cfg} (or its default-basis twin) raised "
                        f"{type(e).__name__}: {e}", exc=type(e).__name__)
    d = phi.refc.d
    labels = ["kind:" + ("relabel" if case["kind"] == "relabel" else case["kind"]), f"d:{d}",
              "basis:named" if cfg.get("named") else "basis:custom"]
    if phi.odd:
        labels.append("basis:odd-spelling")
    if phi.s_pss < 0:
        labels.append("pss:odd-spelling")
    ka, va = case["a"]["keys"], [frac(v) for v in case["a"]["vals"]]
    xc = kd.mk(algc, ka, va)
    kda, vda = phi.keys_vals(ka, va)
    xd = kd.mk(algd, kda, vda)
    if case["kind"] == "matrix":
        return _matrix(case, phi, algc, labels)
    if case["kind"] == "access":
      import copy as _copy
      import numpy as _np
      # array-valued twin of x (list of arrays): reading a coefficient through any spelling must not change the multivector
      xarr = kd.mk_raw(algc, ka, [_np.array([float(v), 2 * float(v) + 1]) for v in va])
      snap = [_np.array(v) for v in xarr.values()]
      for spell in (case.get("spells") or [case.get("spell")]):
        sp = "".join(phi.refc.gens[j] for j in spell)
        name = "e" + sp
        gc = _observe(lambda: getattr(xc, name))
        gd = _observe(lambda: getattr(xd, name))
        if gc != gd:
            raise Violation("accessor-commutes", "getattr", f"x.{name} = {gc} in basis {cfg['basis']} but the relabelled element in the "
                            f"default basis reads {gd}", custom=repr(gc), default=repr(gd))
        ga = _observe(lambda: getattr(xarr, name))
        sgn, bkey = phi.refc.spelled(sp)
        if ga[0] == "ok":
            want = (sgn * snap[list(ka).index(bkey)]) if bkey in list(ka) else 0
            if not _np.allclose(_np.asarray(ga[1], dtype=float), _np.asarray(want, dtype=float)):
                raise Violation("accessor-commutes", "getattr", f"array-valued x.{name} = {ga[1]!r}, expected {want!r}")
        for before, now in zip(snap, xarr.values()):
            if not _np.array_equal(before, _np.asarray(now)):
                raise Violation("accessor-commutes", "getattr", f"reading x.{name} changed the stored (array-valued) coefficients of x: "
                                f"{[list(b) for b in snap]} -> {[list(_np.asarray(v)) for v in xarr.values()]}")
        # the named blade itself is the ordered product of its generators
        bc = _observe(lambda: kd.to_dict(algc.blades[name]))
        bd = _observe(lambda: kd.to_dict(algd.blades[name]))
        if bc[0] == "ok" and bd[0] == "ok":
            ok, why = kd.elem_equal(phi.elem(bc[1]), bd[1])
            if not ok:
                raise Violation("accessor-commutes", "blades", f"blades['{name}']: custom basis gives {kd.show(bc[1])}, default basis gives {kd.show(bd[1])}: {why}")
        # construction by keyword with that spelling round-trips
        if sp:
            val = F(7, 3)
            mc = _observe(lambda: kd.to_dict(algc.multivector(**{name: val})))
            md = _observe(lambda: kd.to_dict(algd.multivector(**{name: val})))
            if mc[0] == "ok" and md[0] == "ok":
                ok, why = kd.elem_equal(phi.elem(mc[1]), md[1])
                if not ok:
                    raise Violation("accessor-commutes", "construct", f"multivector({name}=7/3): custom basis gives {kd.show(mc[1])}, "
                                    f"default basis gives {kd.show(md[1])}: {why}")
      key = [cfg["sig"], cfg.get("basis"), "access", ka, case.get("spells") or case.get("spell")]
      return Info(phi.odd or phi.reordered, labels, key)
    op = case["op"]
    yc = yd = None
    kb = None
    if case["b"] is not None:
        kb, vb = case["b"]["keys"], [frac(v) for v in case["b"]["vals"]]
        yc = kd.mk(algc, kb, vb)
        kdb, vdb = phi.keys_vals(kb, vb)
        yd = kd.mk(algd, kdb, vdb)
    rc = _observe(lambda: kd.to_dict(_apply(op, xc, yc, case.get("grades")), op=op))
    rd = _observe(lambda: kd.to_dict(_apply(op, xd, yd, case.get("grades")), op=op))
    desc = f"{op} on keys {ka}" + (f" x {kb}" if kb is not None else "") + f" in basis {cfg['basis']} (signature by name {cfg['sig']}, start {phi.start})"
    counters = {}
    if rc[0] != rd[0]:
        raise Violation("operator-commutes-with-relabelling", op, f"{desc}: custom basis {'raised ' + rc[1] if rc[0] == 'exc' else 'returned'}, "
                        f"default basis {'raised ' + rd[1] if rd[0] == 'exc' else 'returned'}", exc="raise-mismatch")
    if rc[0] == "exc":
        counters["both-raised:" + rc[1].split(":")[0]] = 1
        return Info(False, labels + ["both-raised"], None, counters)
    got = phi.elem(rc[1])
    exp = rd[1]
    if op in PSS_RELATIVE and phi.s_pss < 0:
        exp = {k: -v for k, v in exp.items()}
    ok, why = kd.elem_equal(got, exp, 1e-9 if op in FLOATY else None)
    if not ok:
        raise Violation("operator-commutes-with-relabelling", op, f"{desc}: phi(result) differs from the default-basis result"
                        + (" (taken w.r.t. phi(pss) = -pss)" if op in PSS_RELATIVE and phi.s_pss < 0 else "") + f": {why}",
                        phi_of_custom=kd.show(got), default=kd.show(exp))
    # the same through a compiled (registered) function on the custom-basis algebra
    if op not in FLOATY and op not in ("inv", "div", "sw", "proj", "outertan", "outerexp", "outersin", "outercos") and len(ka) <= 8 \
            and (kb is None or len(kb) <= 8) and d <= 4:
        grades_ = case.get("grades")
        if yc is not None:
            def f_reg(a, b, _op=op, _g=grades_):
                return _apply(_op, a, b, _g)
            args_ = (xc, yc)
        else:
            def f_reg(a, _op=op, _g=grades_):
                return _apply(_op, a, None, _g)
            args_ = (xc,)
        rr = _observe(lambda: kd.to_dict(algc.register(f_reg)(*args_), op=op))
        if rr[0] != "ok":
            raise Violation("operator-commutes-with-relabelling", op, f"{desc}: inside a registered function raised {rr[1]}", exc="raise-mismatch")
        ok, why = kd.elem_equal(phi.elem(rr[1]), exp)
        if not ok:
            raise Violation("operator-commutes-with-relabelling", op, f"{desc}, inside a registered function: phi(result) differs from the "
                            f"default-basis result: {why}", phi_of_custom=kd.show(phi.elem(rr[1])), default=kd.show(exp))
        counters["checked:registered"] = 1
    labels.append(f"op:{op}")
    key = [cfg["sig"], cfg.get("basis"), op, ka, kb, case.get("grades")]
    return Info((phi.odd or phi.reordered) and bool(clean(exp)), labels, key, counters)


def _matrix(case, phi, algc, labels):
    """Matrix representation of the custom-basis algebra: homomorphism on sampled blade pairs, first column = coefficients in
    the custom canonical order (the relabelling of a faithful representation is a faithful representation)."""
    import numpy as np
    ref = phi.refc
    n = 2 ** ref.d
    canon = list(ref.canon_keys)

    def mat(x, what):
        try:
            return np.array(x.asmatrix(), dtype=object)
        except Exception as e:
            raise Violation("matrix-representation", "asmatrix", f"{what}.asmatrix() raised {type(e).__name__}: {e}", exc=type(e).__name__)
    M = {}
    for i, j in case["pairs"]:
        for k in (i, j, i ^ j):
            if k not in M:
                M[k] = mat(algc.blades[ref.bin2name[k]], ref.bin2name[k])
        s_ = ref.T(i, j)
        exp = M[i ^ j] * s_ if s_ else np.zeros((n, n), dtype=object)
        got = M[i] @ M[j]
        if got.shape != exp.shape or not bool((got == exp).all()):
            raise Violation("matrix-representation", "asmatrix", f"{ref.bin2name[i]}.asmatrix() @ {ref.bin2name[j]}.asmatrix() != "
                            f"({ref.bin2name[i]}*{ref.bin2name[j]}).asmatrix() in basis {case['cfg'].get('basis')} (signature by name {ref.sig})")
        col = list(M[i][:, 0])
        if col != [1 if c == i else 0 for c in canon]:
            raise Violation("matrix-representation", "asmatrix", f"first column of {ref.bin2name[i]}.asmatrix() is {col}")
    return Info(phi.odd or phi.reordered, labels + ["kind:matrix"], [case["cfg"]["sig"], case["cfg"].get("basis"), "matrix", case["pairs"]])


def _evaluate_reject(case):
    try:
        A, B = kd.build_algebra(case["A"]), kd.build_algebra(case["B"])
    except Exception as e:
        raise Violation("custom-basis-constructible", "Algebra", f"constructing {case['A']} / {case['B']} raised {type(e).__name__}: {e}",
                        exc=type(e).__name__)
    x = kd.mk(A, case["ka"], [F(2 + i, 3) for i in range(len(case["ka"]))])
    y = kd.mk(B, case["kb"], [F(5 - i, 2) for i in range(len(case["kb"]))])
    if case["swap"]:
        x, y = y, x
    op = case["op"]
    how = case["how"]
    res = _observe(lambda: getattr(x, op)(y))
    labels = ["kind:reject", f"how:{how}"]
    counters = {}
    asserted = how in ("sigorder", "pqr", "dim", "basis")
    if not asserted:
        counters[f"unasserted:{how}:{res[0]}"] = 1
        return Info(False, labels, case, counters)
    if res[0] == "ok":
        raise Violation("different-algebras-rejected", "binary-operator", f"{op} combined an element of Algebra{_desc(case['A'])} with an element of "
                        f"Algebra{_desc(case['B'])} and returned {kd.show(kd.to_dict(res[1]))} instead of raising",
                        exc=how)
    counters["rejected:" + res[1].split(":")[0]] = 1
    # ... also the N-th time: after the left operand's algebra has generated this operator for the same pair of key patterns
    # through a legitimate call, and as first / later argument of a function registered on one of the algebras
    if len(x.algebra) == len(y.algebra):
        twin = kd.mk(x.algebra, list(y.keys()), [F(1 + i, 2) for i in range(len(y.keys()))])
        warm = _observe(lambda: getattr(x, op)(twin))
        again = _observe(lambda: getattr(x, op)(y))
        if again[0] == "ok":
            raise Violation("different-algebras-rejected", "binary-operator", f"{op} rejected operands of Algebra{_desc(case['A'])} and Algebra{_desc(case['B'])} "
                            f"on the first call but combined them after a legitimate call with the same key patterns "
                            f"(warm-up {warm[0]}): returned {kd.show(kd.to_dict(again[1]))}", exc=how)
        counters["rejected-after-warmup"] = 1

        def f2(a, b):
            return a * b + a

        def f3(a, b, c):
            return a * b - c
        xa = x.algebra
        own = kd.mk(xa, list(x.keys()), [F(3 + i, 2) for i in range(len(x.keys()))])
        for what, fn in (("f(a, b) registered on the algebra of b, a foreign", lambda: xa.register(f2)(y, own)),
                         ("f(a, b) registered on the algebra of a, b foreign", lambda: xa.register(f2)(own, y)),
                         ("f(a, b, c) registered (symbolic=True), a foreign", lambda: xa.register(f3, symbolic=True)(y, own, x)),
                         ("f(a, b, c) registered (symbolic=True), c foreign", lambda: xa.register(f3, symbolic=True)(own, x, y))):
            r_ = _observe(fn)
            if r_[0] == "ok":
                raise Violation("different-algebras-rejected", "registered-function", f"{what}: operands of Algebra{_desc(case['A'])} and "
                                f"Algebra{_desc(case['B'])} were combined: {kd.show(kd.to_dict(r_[1]))}", exc=how)
        counters["rejected-in-registered"] = 1
    ra, rb = RefAlgebra(case["A"]), RefAlgebra(case["B"])
    same_pqr = sorted(ra.sig) == sorted(rb.sig)
    return Info(same_pqr, labels, case, counters)


def _desc(cfg):
    return f"(signature={cfg['sig']}" + (f", basis={cfg['basis']}" if cfg.get("basis") else "") + ")"


FINDING_PREDICATES = {}

MANIFEST_META = {
    "technique": "property-based isomorphism testing (Hypothesis): operator on a custom-basis algebra vs the same operator on the "
                 "relabelled operands in the default basis; negative testing of cross-algebra operands",
    "level_text": "Random admissible custom bases (generator order x blade spellings x within-grade order x start index) and the named "
                  "algebras are compared, operator by operator (28 operators, grade selection, coefficient access and keyword "
                  "construction with any spelling), with the default-basis algebra of the same signature through the harness' own "
                  "relabelling map phi; pss-relative operators are compared w.r.t. phi(pss). Pairs of algebras that differ in ordered "
                  "metric or basis must make every binary operator raise."
                  " Rejection is also required the N-th time (after a legitimate call with the same key patterns) and for a foreign first or later argument of a registered function (numeric and symbolic)."
                  " The operator is also run through alg.register on the custom-basis algebra.",
    "level_note": "Default-basis side is kingdon itself (C01-C08 decide it). d<=4 quick, d<=5 thorough. Matrix representations: C18.",
}
