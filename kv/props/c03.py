"""C03 -- op, ip, lc, rc, sp, cp, acp match their grade-part definitions and are consistent with gp."""
from __future__ import annotations
import os
from itertools import combinations, permutations, product

from hypothesis import strategies as st

from ..core import Violation, Info, frac
from ..refalg import RefAlgebra
from ..refops import R, pc, clean
from ..ring import Q
from .. import strategies as S
from .. import kd

ID = "C03"
OPS = ["op", "ip", "lc", "rc", "sp", "cp", "acp"]
TARGET = {"op": lambda r, s: r + s, "ip": lambda r, s: abs(r - s), "lc": lambda r, s: s - r, "rc": lambda r, s: r - s,
          "sp": lambda r, s: 0}
RULE = ("case = (algebra config incl. custom bases, operator in {op,ip,lc,rc,sp,cp,acp}, ordered key tuples of a and b "
        "with the second operand either independent or derived from the first by bit relations (sub-blade, super-blade, "
        "complement, xor) so that nested / disjoint / partially overlapping blade pairs occur by construction, generic "
        "(indeterminate) or Fraction coefficients, cse flag). Non-trivial = the reference result is neither 0 nor equal "
        "to the geometric product of the same operands. distinct = hash(config, op, keysA, keysB, cse, mode).")
ASSUMPTIONS = [
    "oracle 1: grade-part definitions evaluated on the independent reference product (kv.refalg/kv.refops), popcounts "
    "taken on reference results, no bit tricks",
    "oracle 2 (consequences, on kingdon's own outputs): ip+sp == lc+rc, cp+acp == gp, and a op b == sum over operand "
    "grades (r,s) of the target-grade part of a.grade(r)*b.grade(s) computed with kingdon's gp and grade()",
    "generic coefficients from kv.ring.Q decide each pattern for all coefficient values",
    "d<=8 sampled (d>=6: <=6 stored blades; d=7,8 use the lazily filled sign table); all patterns for d<=1 (quick) / d<=2 "
    "(thorough) enumerated",
]
EXHAUSTIVE_SUBSPACES = {
    "quick": ["7 operators x all ordered key-tuple pairs x all signatures, d<=1"],
    "thorough": ["7 operators x all ordered key-tuple pairs x all signatures, d<=2"],
}
REQUIRED_LABELS = {"order:noncanonical": 0.05, "mode:generic": 0.2, "rel:derived": 0.15, "lazy:d>=7": 0.03}


def budget(tier):
    n = int(os.environ.get("KV_EXAMPLES", 0)) or (7000 if tier == "quick" else 80000)
    return {"examples": n, "shards": 8 if tier == "quick" else 16, "wall": 90 if tier == "quick" else 900}


@st.composite
def _cases(draw, dmax):
    cfg = draw(S.configs(0, 8, custom=0.2, named=True, dweights=[0, 1, 2, 2, 3, 3, 3, 4, 4, 4, 6, 7, 8] + [5, 5] * (dmax >= 5)))
    d = len(cfg["sig"])
    if cfg.get("basis") and d > 5 and not cfg.get("named"):
        cfg["basis"] = None
    n = 2 ** d
    cap = None if d <= 4 else (12 if d == 5 else 6)
    a = draw(S.operand(d, max_len=cap))
    rel = draw(st.sampled_from(["indep", "indep", "sub", "super", "compl", "xor", "same"]))
    if rel == "indep" or not a["keys"]:
        b = draw(S.operand(d, max_len=cap))
        rel = "indep"
    else:
        m = draw(st.integers(0, n - 1))
        f = {"sub": lambda k: k & m, "super": lambda k: k | m, "compl": lambda k: (n - 1) ^ k, "xor": lambda k: k ^ m,
             "same": lambda k: k}[rel]
        ks = []
        for k in a["keys"]:
            if f(k) not in ks:
                ks.append(f(k))
        if draw(st.booleans()):
            ks = list(draw(st.permutations(ks)))
        b = {"cls": "derived", "keys": ks, "vals": draw(S.frac_values(len(ks)))}
    graded = d <= 5 and draw(st.integers(0, 7)) == 0
    if graded:
        cfg["basis"] = None
        cfg.pop("named", None)
        a = draw(S.operand(d, classes=["gradeblock"]))
        b = draw(S.operand(d, classes=["gradeblock"]))
        rel = "indep"
    return {"cfg": cfg, "graded": graded, "op": draw(st.sampled_from(OPS)), "a": a, "b": b, "rel": rel,
            "mode": draw(st.sampled_from(["generic", "generic", "frac", "typed"])), "cse": draw(st.booleans())}


def cases(tier):
    return _cases(4 if tier == "quick" else 5)


def _all_key_tuples(d):
    n = 2 ** d
    return [list(p) for r in range(n + 1) for comb in combinations(range(n), r) for p in permutations(comb)]


def _big_cases():
    """d=6, dense operands: output coefficients that are sums of more than 32 terms (printed / split / bracketed differently by a
    code generator than the short sums every sampled case produces)."""
    full = S.canon_sorted(range(64))
    for n_, op in enumerate(OPS):
        sig = [[1, 1, 1, 1, 1, 1], [1, -1, 1, 1, -1, 1]][n_ % 2]
        yield {"cfg": {"sig": sig, "start": None, "basis": None}, "op": op, "a": {"cls": "enum", "keys": list(full), "vals": None},
               "b": {"cls": "enum", "keys": list(full if n_ % 3 else full[::-1]), "vals": None}, "rel": "enum", "mode": "generic", "cse": n_ % 2 == 0}


def enumerate_cases(tier):
    yield from _big_cases()
    dmax = 1 if tier == "quick" else 2
    i = 0
    for d in range(dmax + 1):
        tuples = _all_key_tuples(d)
        for sig in product([1, -1, 0], repeat=d):
            for ka in tuples:
                for kb in tuples:
                    for op in OPS:
                        i += 1
                        yield {"cfg": {"sig": list(sig), "start": None, "basis": None}, "op": op,
                               "a": {"cls": "enum", "keys": ka, "vals": None}, "b": {"cls": "enum", "keys": kb, "vals": None},
                               "rel": "enum", "mode": "generic", "cse": i % 2 == 0}


def _values(opnd, mode, prefix):
    if mode == "generic" or opnd.get("vals") is None:
        return [Q.var(f"{prefix}{k}") for k in opnd["keys"]]
    if mode == "typed" and opnd.get("tvals"):
        from .. import values as V
        return V.decode(opnd["tvals"])
    return [frac(v) for v in opnd["vals"]]


def _call(fn, clause, op):
    try:
        return fn()
    except Violation:
        raise
    except Exception as e:
        raise Violation(clause, op, f"raised {type(e).__name__}: {e}", exc=type(e).__name__)


def evaluate(case):
    cfg, op = case["cfg"], case["op"]
    ref = RefAlgebra(cfg)
    Rr = R(ref.d, ref.T)
    alg = kd.build_algebra(cfg, cse=case["cse"], graded=bool(case.get("graded")))
    ka, kb = case["a"]["keys"], case["b"]["keys"]
    va, vb = _values(case["a"], case["mode"], "a"), _values(case["b"], case["mode"], "b")
    x, y = kd.mk(alg, ka, va), kd.mk(alg, kb, vb)
    da, db = dict(zip(ka, va)), dict(zip(kb, vb))
    got = kd.to_dict(_call(lambda: getattr(x, op)(y), "definition", op), op=op)
    exp = getattr(Rr, op)(da, db)
    ok, why = kd.elem_equal(got, exp)
    if not ok:
        raise Violation("definition", op, f"a.{op}(b): " + why, observed=kd.show(got), expected=kd.show(exp))
    counters = {}
    # operand forms: a scalar-only operand given as a plain number (either side), a list or a zero-argument callable on the left:
    # all must equal the operator on the explicit multivectors, in the same operand order
    if case["mode"] != "generic":
        def _form(fn, what):
            r = _call(fn, "definition", op)
            rr = r[0] if isinstance(r, (list, tuple)) else r
            ok2, why2 = kd.elem_equal(kd.to_dict(rr, op=op), exp)
            if not ok2:
                raise Violation("definition", op, f"{what}: {why2}", observed=kd.show(kd.to_dict(rr)), expected=kd.show(exp))
            counters["checked:operand-forms"] = counters.get("checked:operand-forms", 0) + 1
        fnobj = getattr(alg, op)
        if list(kb) == [0] and not hasattr(vb[0], "shape"):
            _form(lambda: getattr(x, op)(vb[0]), f"a.{op}(number) with the plain number {vb[0]!r} ({type(vb[0]).__name__}) for the scalar operand")
            _form(lambda: fnobj(x, vb[0]), f"alg.{op}(a, number)")
        if list(ka) == [0] and not hasattr(va[0], "shape"):
            _form(lambda: fnobj(va[0], y), f"alg.{op}(number, b) with the plain number {va[0]!r} ({type(va[0]).__name__}) for the scalar operand")
        _form(lambda: fnobj([x], y), f"alg.{op}([a], b)")
        _form(lambda: fnobj(lambda: x, y), f"alg.{op}(lambda: a, b)")
        if op in ("op", "ip"):
            import operator as _o
            inf = _o.xor if op == "op" else _o.or_
            _form(lambda: inf([x], y), f"[a] {'^' if op == 'op' else '|'} b")
            _form(lambda: inf(lambda: x, y), f"(lambda: a) {'^' if op == 'op' else '|'} b")
    # the very same object on both sides (x op x), method and infix form
    if len(ka) <= 16 and not (ref.d >= 6 and len(ka) > 6):
        expxx = getattr(Rr, op)(da, da)
        forms = [(f"x.{op}(x)", lambda: getattr(x, op)(x))]
        if op == "op":
            forms.append(("x ^ x", lambda: x ^ x))
        elif op == "ip":
            forms.append(("x | x", lambda: x | x))
        for what, fn in forms:
            gxx = kd.to_dict(_call(fn, "definition", op), op=op)
            ok, why = kd.elem_equal(gxx, expxx)
            if not ok:
                raise Violation("definition", op, f"{what} with the same object on both sides (keys {ka}): {why}",
                                observed=kd.show(gxx), expected=kd.show(expxx))
        counters["checked:same-object"] = 1
    # a literal number as operand inside a compiled (registered) function
    if case["mode"] == "frac" and len(ka) <= 8 and ref.d <= 5 and not case.get("graded"):
        def f_r(a, _op=op):
            return getattr(a, _op)(3)
        gr = kd.to_dict(_call(lambda: alg.register(f_r)(x), "definition", op), op=op)
        er = getattr(Rr, op)(da, {0: 3})
        ok, why = kd.elem_equal(gr, er)
        if not ok:
            raise Violation("definition", op, f"alg.register(lambda a: a.{op}(3))(a) with keys {ka}: {why}", observed=kd.show(gr), expected=kd.show(er))
        counters["checked:registered-literal"] = 1
    # symbolic operands (symbols a1, a2, a12, ... b1, ...), the symbolic product then evaluated by a keyword call
    if case["mode"] == "frac" and ref.d <= 4 and 1 <= len(ka) <= 6 and 1 <= len(kb) <= 6 and not case.get("graded"):
        try:
            sc = kd.sym_call(alg, lambda a, b: getattr(a, op)(b), [("a", ka, va), ("b", kb, vb)])
        except Violation:
            raise
        except Exception as e:
            raise Violation("definition", op, f"symbolic a.{op}(b) evaluated by keyword call raised {type(e).__name__}: {e}", exc=type(e).__name__)
        ok, why = kd.elem_equal({k: kd.plain(v) for k, v in kd.to_dict(sc, op=op).items()}, exp, 1e-9)
        if not ok:
            raise Violation("definition", op, f"symbolic a.{op}(b) (keys {ka} x {kb}) called with keyword values: {why}",
                            observed=kd.show(kd.to_dict(sc)), expected=kd.show(exp))
        counters["checked:symbolic-keyword-call"] = 1
    # consequences on kingdon's own outputs
    gpk = kd.to_dict(_call(lambda: x * y, "consistent-with-gp", "gp"), op="gp")
    if op in ("cp", "acp"):
        other = "acp" if op == "cp" else "cp"
        o = kd.to_dict(_call(lambda: getattr(x, other)(y), "definition", other), op=other)
        ok, why = kd.elem_equal(Rr.add(got, o), gpk)
        if not ok:
            raise Violation("cp+acp==gp", op, why, cp_or_acp=kd.show(got), other=kd.show(o), gp=kd.show(gpk))
        counters["checked:cp+acp==gp"] = 1
    if op in ("ip", "sp", "lc", "rc"):
        parts = {o: (got if o == op else kd.to_dict(_call(lambda o=o: getattr(x, o)(y), "definition", o), op=o))
                 for o in ("ip", "sp", "lc", "rc")}
        ok, why = kd.elem_equal(Rr.add(parts["ip"], parts["sp"]), Rr.add(parts["lc"], parts["rc"]))
        if not ok:
            raise Violation("ip+sp==lc+rc", op, why, **{o: kd.show(p) for o, p in parts.items()})
        counters["checked:ip+sp==lc+rc"] = 1
    if op in TARGET:
        gra = sorted({pc(k) for k in ka})
        grb = sorted({pc(k) for k in kb})
        if len(gra) * len(grb) <= 9 and not alg.graded:
            acc = {}
            for r in gra:
                xr = x.grade(r)
                for s in grb:
                    t = TARGET[op](r, s)
                    if t < 0 or t > ref.d:
                        continue
                    prod = kd.to_dict(_call(lambda: xr * y.grade(s), "consistent-with-gp", "gp"), op="gp")
                    acc = Rr.add(acc, {k: v for k, v in prod.items() if pc(k) == t})
            ok, why = kd.elem_equal(got, acc)
            if not ok:
                raise Violation("consistent-with-gp", op, "a.%s(b) differs from the grade parts of kingdon's own gp: %s" % (op, why),
                                observed=kd.show(got), from_gp=kd.show(acc))
            counters["checked:grade-parts-of-own-gp"] = 1
    gpe = Rr.gp(da, db)
    nontrivial = bool(clean(exp)) and not kd.elem_equal(exp, gpe)[0]
    noncanon = (not S.is_canonical(ka)) or (not S.is_canonical(kb))
    labels = [f"op:{op}", f"d:{ref.d}", f"mode:{case['mode']}", "order:noncanonical" if noncanon else "order:canonical",
              "rel:derived" if case["rel"] not in ("indep", "enum") else f"rel:{case['rel']}",
              "basis:custom" if cfg.get("basis") else "basis:default"] + (["lazy:d>=7"] if ref.d >= 7 else []) + (["opt:graded"] if case.get("graded") else [])
    key = [cfg["sig"], cfg.get("start"), cfg.get("basis"), op, ka, kb, case["cse"], case["mode"]]
    return Info(nontrivial, labels, key, counters, sample={"result_keys": sorted(got)} if nontrivial else None)


FINDING_PREDICATES = {}

MANIFEST_META = {
    "technique": "property-based differential + metamorphic testing (Hypothesis + enumeration): grade-part definitions on an "
                 "independent reference product, generic-ring coefficients, and the stated consequences on kingdon's own outputs",
    "level_text": "Each generated (config, operator, key-tuple pair, cse) compiles a fresh function; its output on indeterminate "
                  "coefficients is compared with the grade-part definition computed from an independent reference product, and "
                  "the consequences ip+sp=lc+rc, cp+acp=gp and 'equals the selected grade parts of kingdon's own gp' are checked "
                  "on kingdon's outputs. All patterns for d<=1 (quick) / d<=2 (thorough) are enumerated, the rest sampled with "
                  "blade-pair relations (nested, disjoint, overlapping) constructed on purpose."
                  " Since rounds 3-4: operand forms (plain number of every kind on either side, list, callable, reflected infix), the identical object on both sides (x.op(x), x ^ x), a literal number inside a registered function, graded algebras."
                  " The seven products of two dense d=6 operands run every time; symbolic operands are combined and the result called with keyword values.",
    "level_note": "Trusted: kv.refalg, kv.refops, kv.ring.Q, CPython fractions, Hypothesis. Sampling for d>=3; d>5 not explored.",
}
