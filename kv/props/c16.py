"""C16 -- array coefficients, sequences, callables and plain numbers broadcast right, keeping operand order."""
from __future__ import annotations
import operator as pyop
import os
from fractions import Fraction as F

from hypothesis import strategies as st

from ..core import Violation, Info, frac, fstr, HarnessError
from ..refops import pc
from .. import strategies as S
from .. import kd

ID = "C16"
INFIX = {"*": pyop.mul, "+": pyop.add, "-": pyop.sub, "/": pyop.truediv, "^": pyop.xor, "&": pyop.and_, "|": pyop.or_,
         ">>": pyop.rshift, "@": pyop.matmul}
METHOD = {"*": "gp", "+": "add", "-": "sub", "/": "div", "^": "op", "&": "rp", "|": "ip", ">>": "sw", "@": "proj"}
METHODS_ONLY = ["cp", "acp", "lc", "rc", "sp"]
UN = ["neg", "reverse", "involute", "conjugate", "normsq", "hodge", "inv"]
NUMKINDS = ["int", "float", "Fraction", "np.float64", "np.int64", "complex", "np.complex128", "bool"]
RULE = ("case kinds: (array) operator on multivectors whose coefficients are arrays of trailing shape (), (n,), (n,m) -- one "
        "ndarray or a list of arrays -- compared after indexing with a generated index expression (ints, negative ints, slices, "
        "tuples, fancy lists) against the operator applied to the indexed operands; (number) a Python / numpy number on either side of every "
        "infix operator vs the explicit scalar multivector; (sequence) list / tuple on either side vs the element-wise results "
        "with the container type; (callable) zero-argument, possibly nested, callables on either side vs their value; (setitem) "
        "X[idx] = V through a multivector vs a numpy model array. Operands are chosen NON-commuting for the operator wherever "
        "the algebra allows (vector vs bivector, different blades). Non-trivial = non-multivector operand on the LEFT of a "
        "non-commuting pair, or an index expression containing a slice. distinct = hash(case).")
ASSUMPTIONS = [
    "numpy element-wise arithmetic is trusted; array comparison with numpy.allclose(rtol=1e-12, atol=1e-12)",
    "'number op mv' is compared with 'scalar multivector op mv' evaluated by kingdon itself, so an exception raised by both is "
    "not a violation (e.g. mv / np.int64 raises in numpy's integer power)",
    "not asserted: whether a result shares ndarray storage with an operand (numpy view semantics)",
    "d<=3, default bases; every operand pair is constructed, not filtered",
]
REQUIRED_LABELS = {"kind:array": 0.15, "kind:number": 0.15, "kind:sequence": 0.15, "kind:callable": 0.1, "kind:setitem": 0.05,
                   "left:non-mv": 0.15}


def budget(tier):
    n = int(os.environ.get("KV_EXAMPLES", 0)) or (24000 if tier == "quick" else 80000)
    return {"examples": n, "shards": 16, "wall": 90 if tier == "quick" else 900}


@st.composite
def _index(draw, shape):
    if draw(st.integers(0, 5)) == 0:
        # numpy "fancy" index: a LIST of positions along the first trailing axis (not a tuple: a tuple addresses several axes)
        return ["fancy", draw(st.lists(st.integers(0, shape[0] - 1), min_size=1, max_size=3))]
    parts = []
    for n in shape:
        k = draw(st.sampled_from(["int", "neg", "slice", "slice", "full"]))
        if k == "int":
            parts.append(draw(st.integers(0, n - 1)))
        elif k == "neg":
            parts.append(-draw(st.integers(1, n)))
        elif k == "full":
            parts.append(["slice", None, None, None])
        else:
            a = draw(st.integers(0, n - 1))
            b = draw(st.integers(a, n))
            parts.append(["slice", a, b, draw(st.sampled_from([None, 1, 2]))])
    cut = draw(st.integers(1, len(parts))) if parts else 0
    return parts[:cut]


@st.composite
def _cases(draw):
    kind = draw(st.sampled_from(["array", "array", "number", "number", "sequence", "sequence", "callable", "setitem"]))
    cfg = draw(S.configs(1, 4, dweights=[1, 2, 2, 3, 3, 3, 4]))
    d = len(cfg["sig"])
    classes = ["single", "sparse", "puregrade", "puregrade", "perm", "gradeblock"]
    a = draw(S.operand(d, classes=classes, max_len=5, min_len=1, zero_prob=0.0))
    b = draw(S.operand(d, classes=classes, max_len=5, min_len=1, zero_prob=0.0))
    opk = draw(st.sampled_from(["infix", "infix", "infix", "method"]))
    op = draw(st.sampled_from(sorted(INFIX))) if opk == "infix" else draw(st.sampled_from(METHODS_ONLY + list(METHOD.values())))
    case = {"kind": kind, "cfg": cfg, "a": a, "b": b, "op": op, "opk": opk, "wrapper": draw(st.integers(0, 3)) == 0}
    if kind in ("array", "setitem"):
        shape = draw(st.sampled_from([[3], [2], [2, 3], [3, 2], [1, 2]]))
        case["shape"] = shape
        case["container"] = draw(st.sampled_from(["ndarray", "list-of-arrays"]))
        case["index"] = draw(_index(shape))
        case["bshape"] = draw(st.sampled_from(["same", "same", "scalar"]))
        case["dtypes"] = [draw(st.sampled_from(["float", "float", "int"])), draw(st.sampled_from(["float", "float", "int"]))]
        case["unary"] = draw(st.sampled_from([None, None] + UN))
    if kind == "number":
        case["numkind"] = draw(st.sampled_from(NUMKINDS))
        case["num"] = draw(st.sampled_from(["2", "-3", "5/2", "1/4", "7"]))
        case["side"] = draw(st.sampled_from(["l", "l", "r"]))
    if kind == "sequence":
        case["seq"] = draw(st.sampled_from(["list", "tuple"]))
        case["side"] = draw(st.sampled_from(["l", "l", "r"]))
        case["n"] = draw(st.integers(1, 3))
    if kind == "callable":
        case["side"] = draw(st.sampled_from(["l", "l", "r", "both"]))
        case["depth"] = draw(st.integers(1, 3))
        case["returns"] = draw(st.sampled_from(["mv", "mv", "number", "list"]))
    return case


def cases(tier):
    return _cases()


def _mk_index(parts):
    if parts and parts[0] == "fancy":
        return list(parts[1])
    out = []
    for p in parts:
        out.append(slice(p[1], p[2], p[3]) if isinstance(p, list) else p)
    return tuple(out) if len(out) != 1 else out[0]


def _has_slice(parts):
    return any(isinstance(p, list) for p in parts) or (bool(parts) and parts[0] == "fancy")


def _apply(op, opk, x, y):
    if opk == "infix":
        return INFIX[op](x, y)
    return getattr(x, op)(y)


def _apply_alg(alg, op, opk, x, y):
    """Function form alg.<op>(x, y): accepts any operand kinds on either side."""
    name = METHOD[op] if opk == "infix" else op
    return getattr(alg, name)(x, y)


def _arrvals(vals, shape, seed):
    import numpy as np
    n = len(vals)
    base = np.array([float(frac(v)) for v in vals]).reshape((n,) + (1,) * len(shape))
    grid = np.arange(int(np.prod(shape))).reshape(shape).astype(float)
    return base * (1.0 + 0.25 * grid) + 0.125 * seed * grid


def _elem(x):
    if isinstance(x, kd.MultiVector):
        return kd.to_dict(x, op="broadcast")
    return {0: x}


def _close(g, e):
    import numpy as np
    keys = set(g) | set(e)
    for k in keys:
        gv, ev = g.get(k, 0), e.get(k, 0)
        try:
            ga = np.asarray(gv, dtype=complex) if not isinstance(gv, F) else np.asarray(float(gv), dtype=complex)
            ea = np.asarray(ev, dtype=complex) if not isinstance(ev, F) else np.asarray(float(ev), dtype=complex)
            if ga.shape != ea.shape:
                try:
                    ga, ea = np.broadcast_arrays(ga, ea)
                except ValueError:
                    return False, f"blade {k}: shapes {ga.shape} vs {ea.shape}"
                if np.asarray(gv).shape != np.asarray(ev).shape and not (np.asarray(gv).size == 1 or np.asarray(ev).size == 1):
                    return False, f"blade {k}: shapes {np.asarray(gv).shape} vs {np.asarray(ev).shape}"
            if not np.allclose(ga, ea, rtol=1e-12, atol=1e-12, equal_nan=True):
                return False, f"blade {k}: got {gv!r}, expected {ev!r}"
        except Exception as ex:
            return False, f"blade {k}: not comparable: {ex}"
    return True, ""


def _obs(fn):
    try:
        return "ok", fn()
    except Violation:
        raise
    except HarnessError:
        raise
    except Exception as e:
        return "exc", f"{type(e).__name__}: {str(e)[:120]}"


def _number(kind, s):
    import numpy as np
    v = frac(s)
    if kind == "int":
        return int(v) if v.denominator == 1 else int(v.numerator)
    if kind == "float":
        return float(v)
    if kind == "Fraction":
        return v
    if kind == "np.float64":
        return np.float64(float(v))
    if kind == "complex":
        return complex(float(v), 2.0)
    if kind == "np.complex128":
        return np.complex128(complex(float(v), -1.5))
    if kind == "bool":
        return True
    return np.int64(int(v.numerator))


def evaluate(case):
    import numpy as np
    cfg, kind, op, opk = case["cfg"], case["kind"], case["op"], case["opk"]
    alg = kd.build_algebra(cfg, wrapper=bool(case.get("wrapper")))
    d = len(cfg["sig"])
    ka, kb = case["a"]["keys"], case["b"]["keys"]
    fa = [float(frac(v)) for v in case["a"]["vals"]]
    fb = [float(frac(v)) for v in case["b"]["vals"]]
    labels = [f"kind:{kind}", f"op:{op}", f"d:{d}"] + (["opt:wrapper"] if case.get("wrapper") else [])
    counters = {}
    nontrivial = False
    desc = f"{op} ({opk}) keys {ka} / {kb}"

    if kind == "array":
        shape = tuple(case["shape"])
        A = _arrvals(case["a"]["vals"], shape, 1)
        dta, dtb = case.get("dtypes", ["float", "float"])
        if case.get("unary") == "inv" or op in ("/", "div"):
            dta = dtb = "float"       # numpy refuses integer ** negative: integer-dtype arrays cannot be inverted at all
        if op in ("+", "-", "add", "sub"):
            # a sum of an array-valued and a scalar-valued multivector stores arrays on some blades and plain numbers on
            # others; the statement is about array-valued coefficients, so both operands get the same trailing shape here
            case = dict(case, bshape="same")
        Bv = _arrvals(case["b"]["vals"], shape, 2) if case["bshape"] == "same" else np.array(fb)
        if dta == "int":
            A = np.rint(A * 4).astype(np.int64)          # integer-dtype coefficients (mixed with float ones: no truncation allowed)
        if dtb == "int" and case["bshape"] == "same":
            Bv = np.rint(Bv * 4).astype(np.int64)
        def mkmv(keys, arr, scalar=False):
            if scalar:
                return kd.mk_raw(alg, keys, [float(v) for v in arr])
            if case["container"] == "ndarray":
                return kd.mk_raw(alg, keys, np.array(arr))
            return kd.mk_raw(alg, keys, [np.array(row) for row in arr])
        X = mkmv(ka, A)
        Y = mkmv(kb, Bv, scalar=case["bshape"] != "same")
        idx = _mk_index(case["index"])
        un = case.get("unary")
        full = _obs(lambda: (getattr(X, un)() if un else _apply(op, opk, X, Y)))
        Xi = _obs(lambda: X[idx])
        if Xi[0] == "exc":
            raise Violation("indexing", "getitem", f"X[{idx}] raised {Xi[1]} for coefficient shape {shape} ({case['container']})", exc=Xi[1].split(":")[0])
        # indexing itself: every coefficient indexed
        for k, row in zip(ka, A):
            if not np.allclose(np.asarray(dict(zip(Xi[1].keys(), Xi[1].values()))[k], dtype=float), np.asarray(row[idx] if not isinstance(idx, tuple) else row[idx], dtype=float)):
                raise Violation("indexing", "getitem", f"X[{idx}] coefficient of blade {k} is not the indexed coefficient array")
        Yi = Y if case["bshape"] != "same" else Y[idx]
        part = _obs(lambda: (getattr(Xi[1], un)() if un else _apply(op, opk, Xi[1], Yi)))
        if full[0] != part[0]:
            raise Violation("elementwise", un or op, f"{desc}: on whole arrays {full[0]} ({full[1] if full[0] == 'exc' else ''}), on "
                            f"indexed operands {part[0]} ({part[1] if part[0] == 'exc' else ''})", exc="raise-mismatch")
        if full[0] == "ok":
            fi = _obs(lambda: full[1][idx])
            if fi[0] == "exc":
                raise Violation("elementwise", un or op, f"indexing the result with {idx} raised {fi[1]}", exc=fi[1].split(":")[0])
            ok, why = _close(_elem(fi[1]), _elem(part[1]))
            if not ok:
                raise Violation("elementwise", un or op, f"{un or desc} with coefficient shape {shape} ({case['container']}), index {idx}: "
                                f"result[idx] != op(X[idx], Y[idx]): {why}")
        nontrivial = _has_slice(case["index"])
        labels.append(f"container:{case['container']}")
    elif kind == "setitem":
        shape = tuple(case["shape"])
        A = _arrvals(case["a"]["vals"], shape, 1)
        model = np.array(A)
        X = kd.mk_raw(alg, ka, np.array(A) if case["container"] == "ndarray" else [np.array(r) for r in A])
        idx = _mk_index(case["index"])
        target_shape = model[(slice(None),) + (idx if isinstance(idx, tuple) else (idx,))].shape[1:]
        V = (np.arange(int(np.prod(target_shape)), dtype=float).reshape(target_shape) + 100.0) if target_shape else np.float64(100.0)
        how = case["bshape"]
        if how == "scalar" and case["container"] != "ndarray":
            how = "same"     # a bare scalar right-hand side relies on numpy broadcasting of ONE ndarray; list-backed values take
                             # one value per coefficient (a multivector or a sequence)
        if how == "scalar":
            r = _obs(lambda: X.__setitem__(idx, 7.5))
            model[(slice(None),) + (idx if isinstance(idx, tuple) else (idx,))] = 7.5
        else:
            rhs_vals = np.stack([V + j for j in range(len(ka))]) if target_shape else np.array([float(V) + j for j in range(len(ka))])
            rhs = kd.mk_raw(alg, ka, rhs_vals if case["container"] == "ndarray" else [np.array(r_) for r_ in rhs_vals])
            r = _obs(lambda: X.__setitem__(idx, rhs))
            model[(slice(None),) + (idx if isinstance(idx, tuple) else (idx,))] = rhs_vals
        if r[0] == "exc":
            raise Violation("setitem", "setitem", f"X[{idx}] = ... raised {r[1]} (shape {shape}, {case['container']}, rhs {how})", exc=r[1].split(":")[0])
        got = np.array([np.asarray(v, dtype=float) for v in X.values()])
        if got.shape != model.shape or not np.allclose(got, model):
            raise Violation("setitem", "setitem", f"after X[{idx}] = {how} the coefficients differ from the numpy model (shape {shape}, "
                            f"{case['container']}): got {got.tolist()}, expected {model.tolist()}")
        # the assignment copies: overwriting the right-hand side afterwards (through the multivector) touches nothing of X
        if how != "scalar" and target_shape and all(n_ > 0 for n_ in target_shape):
            w0 = np.full_like(rhs_vals[:, 0], -999.0)        # entry 0 along the first trailing axis of every coefficient
            wipe = kd.mk_raw(alg, ka, w0 if case["container"] == "ndarray" else [np.array(r_) for r_ in w0])
            rw = _obs(lambda: rhs.__setitem__(0, wipe))
            if rw[0] == "ok":
                got = np.array([np.asarray(v, dtype=float) for v in X.values()])
                if got.shape != model.shape or not np.allclose(got, model):
                    raise Violation("setitem", "setitem", f"after X[{idx}] = Y, assigning to Y changed X (shape {shape}, {case['container']}): "
                                    f"X reads {got.tolist()}, expected {model.tolist()}")
        # a right-hand side holding the same blades in another key order: refused, or assigned blade by blade
        if len(ka) >= 2 and how != "scalar":
            X2 = kd.mk_raw(alg, ka, np.array(A) if case["container"] == "ndarray" else [np.array(r) for r in A])
            model2 = np.array(A)
            perm = list(range(len(ka)))[::-1]
            src_vals = np.stack([np.asarray(model2[i], dtype=float) * 3 + 1 for i in range(len(ka))])
            rhs2 = kd.mk_raw(alg, [ka[i] for i in perm], np.array([src_vals[i] for i in perm]) if case["container"] == "ndarray"
                             else [np.array(src_vals[i]) for i in perm])
            sel = (slice(None),) + (idx if isinstance(idx, tuple) else (idx,))
            r2 = _obs(lambda: X2.__setitem__(idx, rhs2[idx]))
            if r2[0] == "ok":
                model2[sel] = src_vals[sel]
                got2 = np.array([np.asarray(v, dtype=float) for v in X2.values()])
                if got2.shape != model2.shape or not np.allclose(got2, model2):
                    raise Violation("setitem", "setitem", f"X[{idx}] = Y[{idx}] with Y holding the same blades in key order {[ka[i] for i in perm]} (X: {ka}) was "
                                    f"accepted but wrote coefficients to other blades: got {got2.tolist()}, blade-wise expected {model2.tolist()}")
        # mismatching keys must raise
        if len(ka) >= 1:
            other_keys = [k for k in range(2 ** d) if k not in ka][:len(ka)]
            if len(other_keys) == len(ka):
                bad = kd.mk_raw(alg, other_keys, np.array(A))
                rr = _obs(lambda: X.__setitem__(idx, bad))
                if rr[0] == "ok":
                    raise Violation("setitem", "setitem", f"assigning a multivector with keys {other_keys} into one with keys {ka} did not raise")
        nontrivial = _has_slice(case["index"])
    elif kind == "number":
        num = _number(case["numkind"], case["num"])
        y = kd.mk_raw(alg, kb, list(fb))
        smv = kd.mk_raw(alg, (0,), [num])
        if case["side"] == "l":
            got = _obs(lambda: _apply(op, opk, num, y) if opk == "infix" else _apply_alg(alg, op, opk, num, y))
            exp = _obs(lambda: _apply(op, opk, smv, y))
        else:
            got = _obs(lambda: _apply(op, opk, y, num))
            exp = _obs(lambda: _apply(op, opk, y, smv))
        _same(got, exp, "number-as-scalar", op, f"{case['numkind']}({num}) {'left' if case['side'] == 'l' else 'right'} of {desc}")
        if len(kb) > 1:
            # the same multivector stored in another key order, then the original again (each layout is its own generated function)
            yp = kd.mk_raw(alg, kb[::-1], list(fb)[::-1])
            for what, yy in (("re-ordered storage", yp), ("original storage after the re-ordered call", y)):
                g2 = _obs(lambda: (_apply(op, opk, num, yy) if opk == "infix" else _apply_alg(alg, op, opk, num, yy)) if case["side"] == "l" else _apply(op, opk, yy, num))
                _same(g2, exp, "number-as-scalar", op, f"{case['numkind']}({num}) with the multivector in {what} (keys {list(yy.keys())}, wrapper={bool(case.get('wrapper'))}), {desc}")
        nontrivial = case["side"] == "l" and op in ("-", "/", ">>", "@", "sub", "div", "sw", "proj", "lc", "rc")
        labels.append(f"num:{case['numkind']}")
        if case["side"] == "l":
            labels.append("left:non-mv")
    elif kind == "sequence":
        cont = list if case["seq"] == "list" else tuple
        x = kd.mk_raw(alg, ka, list(fa))
        ys = [kd.mk_raw(alg, kb, [v * (j + 1) + j for v in fb]) for j in range(case["n"])]
        seq = cont(ys)
        if case["side"] == "l":
            got = _obs(lambda: _apply(op, opk, seq, x) if opk == "infix" else _apply_alg(alg, op, opk, seq, x))
            exp = [_obs(lambda y=y: _apply(op, opk, y, x)) for y in ys]
        else:
            got = _obs(lambda: _apply(op, opk, x, seq))
            exp = [_obs(lambda y=y: _apply(op, opk, x, y)) for y in ys]
        what = f"{case['seq']} of {case['n']} {'left' if case['side'] == 'l' else 'right'} of {desc}"
        if any(e[0] == "exc" for e in exp):
            if got[0] == "ok":
                raise Violation("sequence-broadcast", op, f"{what}: element-wise evaluation raises {[e[1] for e in exp if e[0] == 'exc'][0]} "
                                f"but the sequence form returned", exc="raise-mismatch")
        else:
            if got[0] == "exc":
                raise Violation("sequence-broadcast", op, f"{what}: raised {got[1]}", exc=got[1].split(":")[0])
            if type(got[1]) is not cont:
                raise Violation("sequence-broadcast", op, f"{what}: returned {type(got[1]).__name__}, expected {cont.__name__}")
            if len(got[1]) != len(exp):
                raise Violation("sequence-broadcast", op, f"{what}: {len(got[1])} results for {len(exp)} elements")
            for j, (g_, e_) in enumerate(zip(got[1], exp)):
                ok, why = _close(_elem(g_), _elem(e_[1]))
                if not ok:
                    raise Violation("sequence-broadcast", op, f"{what}: element {j} differs from the operator applied to that element "
                                    f"in the same operand order: {why}")
        nontrivial = case["side"] == "l"
        if case["side"] == "l":
            labels.append("left:non-mv")
    elif kind == "callable":
        x = kd.mk_raw(alg, ka, list(fa))
        if case["returns"] == "mv":
            val = kd.mk_raw(alg, kb, list(fb))
        elif case["returns"] == "number":
            val = 2.5
        else:
            val = [kd.mk_raw(alg, kb, list(fb)), kd.mk_raw(alg, kb, [v + 1 for v in fb])]
        def wrap(v, depth):
            f = lambda: v
            for _ in range(depth - 1):
                f = (lambda g: (lambda: g))(f)
            return f
        c = wrap(val, case["depth"])
        side = case["side"]
        if side == "l":
            got = _obs(lambda: _apply(op, opk, c, x) if opk == "infix" else _apply_alg(alg, op, opk, c, x))
            exp = _obs(lambda: _apply(op, opk, val, x) if opk == "infix" or isinstance(val, kd.MultiVector) else _apply_alg(alg, op, opk, val, x))
        elif side == "r":
            got = _obs(lambda: _apply(op, opk, x, c))
            exp = _obs(lambda: _apply(op, opk, x, val))
        else:
            cx = wrap(x, 1)
            got = _obs(lambda: _apply_alg(alg, op, opk, c, cx))
            exp = _obs(lambda: _apply(op, opk, val, x) if opk == "infix" or isinstance(val, kd.MultiVector) else _apply_alg(alg, op, opk, val, x))
        _same(got, exp, "callable-replaced-by-value", op, f"callable (depth {case['depth']}, returns {case['returns']}) {side} of {desc}")
        nontrivial = side in ("l", "both")
        if side in ("l", "both"):
            labels.append("left:non-mv")
    return Info(nontrivial, labels, case, counters)


def _same(got, exp, clause, op, what):
    if got[0] != exp[0]:
        raise Violation(clause, op, f"{what}: {'raised ' + got[1] if got[0] == 'exc' else 'returned'} but the explicit form "
                        f"{'raised ' + exp[1] if exp[0] == 'exc' else 'returned'}", exc="raise-mismatch")
    if got[0] == "exc":
        return
    g, e = got[1], exp[1]
    if isinstance(e, (list, tuple)):
        if type(g) is not type(e) or len(g) != len(e):
            raise Violation(clause, op, f"{what}: returned {type(g).__name__} of length {len(g) if hasattr(g, '__len__') else '?'}, "
                            f"expected {type(e).__name__} of length {len(e)}")
        pairs = list(zip(g, e))
    else:
        pairs = [(g, e)]
    for j, (gg, ee) in enumerate(pairs):
        ok, why = _close(_elem(gg), _elem(ee))
        if not ok:
            raise Violation(clause, op, f"{what}: differs from the explicit form (operand order must be kept): {why}",
                            observed=repr(_elem(gg))[:300], expected=repr(_elem(ee))[:300])


FINDING_PREDICATES = {}

MANIFEST_META = {
    "technique": "metamorphic property-based testing (Hypothesis): index-then-operate vs operate-then-index on array-valued "
                 "multivectors; number / sequence / callable operands on either side vs their explicit forms; setitem vs a numpy model",
    "level_text": "Generated non-commuting operand pairs are combined with every infix operator and method form where one side is a "
                  "number (Python or numpy), a list or tuple, or a (nested) zero-argument callable, and compared with the explicit "
                  "scalar multivector / element-wise / evaluated forms in the same operand order; array-valued coefficients of "
                  "several trailing shapes (one ndarray or a list of arrays) are checked to act element-wise under generated index "
                  "expressions, and assignment through a multivector is compared with a numpy model."
                  " After X[idx] = Y, overwriting Y must leave X unchanged (the assignment copies).",
    "level_note": "Compares kingdon with itself under the stated relations (numpy trusted). d<=3.",
}
