"""C01 -- basis-blade products follow the Clifford relations of the chosen signature; the Cayley table is that table."""
from __future__ import annotations
import os
from functools import reduce
from itertools import combinations, permutations, product

from hypothesis import strategies as st

from ..core import Violation, Info
from ..refalg import RefAlgebra, perm_parity
from ..refops import pc
from .. import strategies as S
from .. import kd

ID = "C01"
RULE = ("case = one algebra configuration (explicit signature ordering over {+1,-1,0} or (p,q,r) form, start index in "
        "{None,0,1,2}, default / custom basis = generator order x per-blade spelling x within-grade order / named algebra; "
        "d<=6 eager tables, d=7,8 lazy tables) bundled with sampled ordered blade pairs, triples and blade spellings. "
        "Per case: every generator square, sampled anticommutation pairs, the full Cayley table (d<=5; d<=6 thorough), "
        "sampled blade products as elements, sampled associativity triples, sampled permuted spellings vs the ordered "
        "product of generators. A unit = (config, ordered blade pair) or (config, triple) or (config, spelling); it is "
        "non-trivial when the blades share a generator, or need >= 1 transposition, or eliminate a null/negative "
        "generator (pairs), when all three blades are non-scalar (triples), when the spelling is a non-identity "
        "permutation (spellings). distinct counts non-trivial units.")
ASSUMPTIONS = [
    "axioms are checked on the observable API only: alg.blades[...] products evaluated with kingdon's own gp, alg.cayley, "
    "alg.pss; the reference table is kv.refalg (bubble sort over generator names from the generated configuration)",
    "admissible names: single hex digit generators (d <= 8, start <= 2, so digits 0-9), no repeated generator in a name",
    "default start index rule (0 when exactly one null generator, else 1) is taken from the constructor documentation",
]
EXHAUSTIVE_SUBSPACES = {
    "quick": ["all 3^d signature orderings x start in {0,1,2} for d<=3 with the full Cayley table and all generator relations",
              "all custom bases for d<=2 x all signatures"],
    "thorough": ["all 3^d signature orderings x start in {0,1,2} for d<=4 with full Cayley table",
                 "all custom bases for d<=2 x all signatures; all 1728 custom bases for d=3 (signature cycled)"],
}
REQUIRED_LABELS = {"basis:custom": 0.1, "lazy:d>=7": 0.03}


def budget(tier):
    n = int(os.environ.get("KV_EXAMPLES", 0)) or (3000 if tier == "quick" else 20000)
    return {"examples": n, "shards": 8 if tier == "quick" else 16, "wall": 90 if tier == "quick" else 900, "fuzz_runs": 6000 if tier == "thorough" else 0}


@st.composite
def _cases(draw):
    form = draw(st.sampled_from(["sig", "sig", "sig", "pqr", "custom", "custom", "named", "lazy"]))
    if form == "lazy":
        cfg = draw(S.configs(7, 8, starts=(None, 0, 1, 2)))
    elif form == "named":
        name = draw(st.sampled_from(sorted(S.NAMED)))
        cfg = {"sig": list(S.NAMED[name][0]), "start": None, "basis": list(S.NAMED[name][1]), "named": name}
    elif form == "custom":
        cfg = draw(S.configs(1, 5, custom=1.0, starts=(None, 0, 1, 2), dweights=[1, 2, 2, 3, 3, 3, 4, 4, 5]))
    elif form == "pqr":
        p, q, r = draw(st.integers(0, 3)), draw(st.integers(0, 3)), draw(st.integers(0, 2))
        sig = ([0] * r + [1] * p + [-1] * q) if r == 1 else ([1] * p + [-1] * q + [0] * r)
        cfg = {"sig": sig, "pqr": [p, q, r], "start": draw(st.sampled_from([None, 0, 1, 2])), "basis": None}
    else:
        cfg = draw(S.configs(0, 6, starts=(None, 0, 1, 2), dweights=[0, 1, 2, 3, 3, 4, 4, 5, 5, 6]))
    d = len(cfg["sig"])
    n = 2 ** d
    blade = st.integers(0, n - 1)
    pairs = draw(st.lists(st.tuples(blade, blade), min_size=4, max_size=24))
    triples = draw(st.lists(st.tuples(blade, blade, blade), min_size=2, max_size=10))
    spells = []
    for _ in range(draw(st.integers(2, 8))):
        k = draw(blade)
        bits = [j for j in range(d) if k >> j & 1]
        spells.append(list(draw(st.permutations(bits))))
    return {"cfg": cfg, "pairs": [list(p) for p in pairs], "triples": [list(t) for t in triples], "spells": spells, "full": d <= 5,
            "graded": d <= 5 and not cfg.get("named") and draw(st.integers(0, 5)) == 0}


def cases(tier):
    return _cases()


def _all_custom_bases(d, start):
    gens = [format(start + j, "x") for j in range(d)]
    for gp_ in permutations(gens):
        per_grade = []
        for g in range(2, d + 1):
            blades_opts = [["e" + "".join(sp) for sp in permutations(comb)] for comb in combinations(gp_, g)]
            grade_lists = []
            for choice in product(*blades_opts):
                for order in permutations(choice):
                    grade_lists.append(list(order))
            per_grade.append(grade_lists)
        for combo in product(*per_grade):
            yield ["e"] + ["e" + g for g in gp_] + [b for gl in combo for b in gl]


def enumerate_cases(tier):
    dmax = 3 if tier == "quick" else 4
    for d in range(dmax + 1):
        for sig in product([1, -1, 0], repeat=d):
            for start in (0, 1, 2):
                yield {"cfg": {"sig": list(sig), "start": start, "basis": None}, "pairs": [], "triples": "all" if d <= 2 else [],
                       "spells": "all" if d <= 3 else [], "full": True, "elements": d <= 2}
    for d in (1, 2):
        for start in (0, 1, 2):
            for basis in _all_custom_bases(d, start):
                for sig in product([1, -1, 0], repeat=d):
                    yield {"cfg": {"sig": list(sig), "start": None, "basis": basis}, "pairs": [], "triples": "all",
                           "spells": "all", "full": True, "elements": True}
    if tier == "thorough":
        sigs = list(product([1, -1, 0], repeat=3))
        for i, basis in enumerate(_all_custom_bases(3, 1)):
            yield {"cfg": {"sig": list(sigs[i % 27]), "start": None, "basis": basis}, "pairs": [], "triples": [],
                   "spells": "all", "full": True, "elements": i % 8 == 0}


def _call(fn, clause, op, what=""):
    try:
        return fn()
    except Violation:
        raise
    except Exception as e:
        raise Violation(clause, op, f"{what} raised {type(e).__name__}: {e}", exc=type(e).__name__)


def _elem(x):
    return {k: v for k, v in kd.to_dict(x, op="blade").items() if v != 0}


def evaluate(case):
    cfg = case["cfg"]
    ref = RefAlgebra(cfg)
    d = ref.d
    alg = _call(lambda: kd.build_algebra(cfg, graded=bool(case.get("graded"))), "constructible", "Algebra", f"Algebra({cfg})")
    if len(alg) != 2 ** d:
        raise Violation("constructible", "Algebra", f"len(alg)={len(alg)} for d={d}")
    units = []
    ckey = [cfg["sig"], cfg.get("pqr"), cfg.get("start"), cfg.get("basis")]
    B = lambda key: alg.blades[ref.bin2name[key]]
    # each named blade lives on the bitmask a user expects (bit j = j-th grade-1 entry)
    for g in ref.gens:
        e = _elem(_call(lambda: alg.blades["e" + g], "blade-lookup", "blades", f"blades[e{g}]"))
        if e != {1 << ref.pos[g]: 1}:
            raise Violation("blade-lookup", "blades", f"blades['e{g}'] is {e}, expected unit coefficient on bit {ref.pos[g]}")
    # generator squares
    for g in ref.gens:
        eg = alg.blades["e" + g]
        sq = _elem(_call(lambda: eg * eg, "generator-square", "gp", f"e{g}*e{g}"))
        exp = {0: ref.metric[g]} if ref.metric[g] else {}
        if sq != exp:
            raise Violation("generator-square", "gp", f"e{g}*e{g} = {sq}, signature entry is {ref.metric[g]} "
                            f"(signature {ref.sig}, start {ref.start})", observed=kd.show(sq))
    # anticommutation of distinct generators (all pairs d<=5, else sampled through case['pairs'])
    gpairs = list(combinations(ref.gens, 2)) if d <= 5 else [
        (ref.gens[i % d], ref.gens[j % d]) for i, j in case["pairs"] if (i % d) != (j % d)]
    for g, h in gpairs:
        eg, eh = alg.blades["e" + g], alg.blades["e" + h]
        gh = _elem(_call(lambda: eg * eh, "anticommute", "gp"))
        hg = _elem(_call(lambda: eh * eg, "anticommute", "gp"))
        if gh != {k: -v for k, v in hg.items()} or len(gh) != 1:
            raise Violation("anticommute", "gp", f"e{g}*e{h} = {gh} but e{h}*e{g} = {hg}")
        s, key = ref.spelled(g + h)
        if gh != {key: s}:
            raise Violation("named-blade=ordered-product", "gp", f"e{g}*e{h} = {gh}; blade {ref.bin2name[key]} should be "
                            f"{'+' if s > 0 else '-'} that product")
    # Cayley table
    if case.get("full") and d <= 6:
        cay = _call(lambda: alg.cayley, "cayley", "cayley")
        if len(cay) != 4 ** d:
            raise Violation("cayley", "cayley", f"Cayley table has {len(cay)} entries, expected {4 ** d}")
        for na in ref.names:
            for nb in ref.names:
                exp = ref.cayley_string(na, nb)
                got = cay.get((na, nb))
                I, J = ref.name2bin[na], ref.name2bin[nb]
                units.append(([ckey, "cay", I, J], _nt_pair(ref, I, J)))
                if got != exp:
                    raise Violation("cayley", "cayley", f"cayley[{na},{nb}] = {got!r}, Clifford relations give {exp!r} "
                                    f"(signature {ref.sig}, start {ref.start}, basis {cfg.get('basis')})")
    # blade products as elements
    pairs = case["pairs"]
    if case.get("elements"):
        pairs = [[I, J] for I in range(2 ** d) for J in range(2 ** d)]
    if not case.get("elements"):
        # every sampled pair in both orders on the same algebra (the lazily filled table of d >= 7 is state)
        pairs = [p_ for I, J in pairs for p_ in ([I, J], [J, I])]
    for I, J in pairs:
        got = _elem(_call(lambda: B(I) * B(J), "blade-product", "gp", f"{ref.bin2name[I]}*{ref.bin2name[J]}"))
        s = ref.T(I, J)
        exp = {I ^ J: s} if s else {}
        units.append(([ckey, "prod", I, J], _nt_pair(ref, I, J)))
        if got != exp:
            raise Violation("blade-product", "gp", f"{ref.bin2name[I]}*{ref.bin2name[J]} = {got}, Clifford relations give {exp} "
                            f"(signature {ref.sig}, start {ref.start}, basis {cfg.get('basis')})")
    # the same relations for scaled blades: a blade with coefficient -1 stored next to an explicit zero, and blades scaled by
    # sympy symbols (s*E_I)*(t*E_J) = s*t*(E_I*E_J) -- also in graded algebras, where blades are complete-grade multivectors
    import sympy
    s_, t_ = sympy.symbols("s t")
    for I, J in case["pairs"][:6]:
        sg = ref.T(I, J)
        exp = {I ^ J: sg} if sg else {}
        if not case.get("graded"):
            other = next(k for k in range(2 ** d) if k != I) if d else None
            negI = kd.mk(alg, [I] + ([other] if other is not None else []), [-1] + ([0] if other is not None else []))
            got = _elem(_call(lambda: negI * B(J), "blade-product", "gp", f"(-{ref.bin2name[I]} + 0*...)*{ref.bin2name[J]}"))
            if got != {k: -v for k, v in exp.items()}:
                raise Violation("blade-product", "gp", f"(-1*{ref.bin2name[I]} stored with an explicit zero) * {ref.bin2name[J]} = {got}, "
                                f"Clifford relations give {dict((k, -v) for k, v in exp.items())} (signature {ref.sig})")
        sym = _call(lambda: (B(I) * s_) * (B(J) * t_), "blade-product", "gp", f"(s*{ref.bin2name[I]})*(t*{ref.bin2name[J]})")
        gs = {k: sympy.expand(v) for k, v in kd.to_dict(sym, op="gp").items() if sympy.expand(v) != 0}
        if gs != {k: sympy.expand(v * s_ * t_) for k, v in exp.items()}:
            raise Violation("blade-product", "gp", f"(s*{ref.bin2name[I]})*(t*{ref.bin2name[J]}) = {gs}, expected s*t*{exp} "
                            f"(signature {ref.sig}, graded={bool(case.get('graded'))})")
    # associativity
    triples = case["triples"]
    if triples == "all":
        triples = [[I, J, K] for I in range(2 ** d) for J in range(2 ** d) for K in range(2 ** d)]
    for I, J, K in triples:
        l = _elem(_call(lambda: (B(I) * B(J)) * B(K), "associative", "gp"))
        r = _elem(_call(lambda: B(I) * (B(J) * B(K)), "associative", "gp"))
        units.append(([ckey, "assoc", I, J, K], bool(I and J and K)))
        if l != r:
            raise Violation("associative", "gp", f"({ref.bin2name[I]}*{ref.bin2name[J]})*{ref.bin2name[K]} = {l} but "
                            f"{ref.bin2name[I]}*({ref.bin2name[J]}*{ref.bin2name[K]}) = {r} (signature {ref.sig})")
    # spellings: any permutation of a blade's generators
    spells = case["spells"]
    if spells == "all":
        spells = [list(p) for k in range(2 ** d) for p in permutations([j for j in range(d) if k >> j & 1])]
    for bits in spells:
        sp = "".join(ref.gens[j] for j in bits)
        s, key = ref.spelled(sp)
        got = _elem(_call(lambda: alg.blades["e" + sp], "named-blade=ordered-product", "blades", f"blades['e{sp}']"))
        units.append(([ckey, "spell", sp], ("e" + sp) != ref.bin2name[key] or len(sp) >= 2))
        if got != {key: s}:
            raise Violation("named-blade=ordered-product", "blades", f"blades['e{sp}'] = {got}; expected {s:+d} * {ref.bin2name[key]} "
                            f"(basis {cfg.get('basis')})")
        if sp:
            prod = _elem(_call(lambda: reduce(lambda a, b: a * b, [alg.blades['e' + c] for c in sp]), "named-blade=ordered-product", "gp"))
            if prod != got:
                raise Violation("named-blade=ordered-product", "gp", f"blades['e{sp}'] = {got} but the ordered product "
                                f"{'*'.join('e' + c for c in sp)} = {prod}")
        # attribute form
        got2 = _elem(_call(lambda: getattr(alg.blades, "e" + sp), "named-blade=ordered-product", "blades"))
        if got2 != got:
            raise Violation("named-blade=ordered-product", "blades", f"blades.e{sp} = {got2} but blades['e{sp}'] = {got}")
    # pseudoscalar
    pss = _elem(alg.pss)
    if pss != {ref.pss_key: 1}:
        raise Violation("blade-lookup", "pss", f"alg.pss = {pss}")
    labels = [f"d:{d}", "basis:named" if cfg.get("named") else ("basis:custom" if cfg.get("basis") else "basis:default"),
              f"start:{cfg.get('start')}"]
    if cfg.get("basis"):
        labels.append("basis:custom") if cfg.get("named") else None
    if d >= 7:
        labels.append("lazy:d>=7")
    if cfg.get("pqr") is not None:
        labels.append("form:pqr")
    if case.get("graded"):
        labels.append("opt:graded")
    if 0 in ref.sig:
        labels.append("sig:degenerate")
    return Info(True, labels, ckey, units=units)


def _nt_pair(ref, I, J):
    if I & J:
        return True
    # needs a transposition? (any generator of J below a generator of I in bit order) or odd named orientation
    if I and J and (I.bit_length() > (J & -J).bit_length()):
        return True
    return ref.orientation(I) < 0 or ref.orientation(J) < 0 or ref.orientation(I ^ J) < 0


FINDING_PREDICATES = {}

MANIFEST_META = {
    "technique": "property-based testing + enumeration of small configuration spaces: Clifford axioms on the observable API and "
                 "differential comparison of the Cayley table / blade products with an independent bubble-sort reference",
    "level_text": "Algebra configurations are enumerated (all signature orderings x start indices for d<=3 quick / d<=4 thorough, "
                  "all custom bases d<=2, all 1728 custom bases of d=3 in thorough) and sampled (d<=6 eager, d=7,8 lazy, custom "
                  "bases d<=5, named algebras, (p,q,r) form). For each, generator squares, anticommutation, the whole Cayley "
                  "table, sampled blade products, associativity triples and permuted blade spellings are checked.",
    "level_note": "Trusted: kv.refalg (bubble sort with metric contraction by generator name). d>8 and multi-character generator "
                  "names are outside the explored domain; for d>=5 pairs/triples are sampled.",
}
