"""C10 -- code is generated at most once per operator and key pattern, whatever the coefficient values or types."""
from __future__ import annotations
import builtins
import os
from fractions import Fraction as F

from hypothesis import strategies as st

from ..core import Violation, Info, frac, HarnessError
from .. import strategies as S
from .. import kd

ID = "C10"
BIN = ["gp", "op", "ip", "lc", "rc", "sp", "cp", "acp", "add", "sub", "rp", "sw", "proj", "div"]
UN = ["neg", "reverse", "involute", "conjugate", "normsq", "hodge", "unhodge", "inv", "sqrt", "outerexp", "polarity"]
HEAVY = {"inv", "div", "sw", "proj", "sqrt", "normsq", "outerexp"}
TYPES = ["int", "float", "Fraction", "complex", "np.float64", "ndarray", "sympy.Symbol", "sympy.expr", "mixed", "sympy.withzero", "int.withzero"]
PROGRAMS = [
    (2, "def f(a, b): return a * b + (a >> b)"),
    (2, "def f(a, b): return (a | b) * ~b"),
    (1, "def f(a): return a * ~a + a"),
    (2, "def f(a, b): return a.cp(b) ^ b"),
]
RULE = ("case = one sequential history on one algebra (d<=3, signatures incl. degenerate ones, options plain / graded / "
        "wrapper): a small pool of key patterns (incl. the empty pattern, permuted copies and patterns whose result is "
        "identically zero) and 8-50 steps, each a call of one of 14 binary / 11 unary operators or of a registered function "
        "(numeric or symbolic=True) on pool patterns with the coefficient TYPE drawn per operand from {int, float, Fraction, "
        "complex, np.float64, ndarray, sympy.Symbol, sympy expression, mixed}. A model remembers which (operator, ordered "
        "key patterns) have already returned. Instrumentation (from the harness side): a counting stand-in for compile() in "
        "kingdon.codegen and counting wrappers around do_codegen/do_compile in kingdon.operator_dict. Non-trivial = a "
        "repeated call whose coefficient type differs from every earlier call of that pattern. distinct = hash(history).")
ASSUMPTIONS = [
    "a repeated call (same operator, same ordered key patterns, earlier call returned) must cause zero compile/do_codegen/"
    "do_compile events, leave the total size of all operator caches unchanged and keep the cached function object identical",
    "over a whole history no (generator function, ordered key patterns) pair may be generated twice, also inside composite "
    "operators that call other operators during generation",
    "first occurrences are not asserted to generate exactly once (nested generation may already have cached them), only that "
    "the entry exists afterwards",
    "liveness: each history first calls a guaranteed-new pattern and requires >= 1 compile event and >= 1 do_codegen event, "
    "otherwise the run is a harness error (exit 2) -- a refactor cannot silently make the check vacuous",
    "a call that raised is not added to the model, and only generations that completed count as events (a generation that "
    "raises, e.g. polarity in a degenerate metric or division by an identically singular pattern, caches nothing and may "
    "legitimately be retried)",
]
REQUIRED_LABELS = {"repeat:newtype": 0.3, "opts:wrapper": 0.03, "opts:graded": 0.03}


def budget(tier):
    n = int(os.environ.get("KV_EXAMPLES", 0)) or (2400 if tier == "quick" else 16000)
    return {"examples": n, "shards": 16, "wall": 90 if tier == "quick" else 900}


@st.composite
def _cases(draw, tier):
    cfg = draw(S.configs(1, 3, dweights=[1, 2, 2, 3, 3, 3]))
    d = len(cfg["sig"])
    n = 2 ** d
    opts = draw(st.sampled_from(["wrapper", "graded", "plain", "plain", "nocse", "wrapper", "graded"]))
    pool = []
    if opts == "graded":
        for _ in range(draw(st.integers(2, 4))):
            _, ks = draw(S.key_tuples(d, classes=["gradeblock"]))
            pool.append(ks)
    else:
        for _ in range(draw(st.integers(2, 4))):
            _, ks = draw(S.key_tuples(d, classes=["single", "sparse", "puregrade", "perm", "gradeblock", "empty"], max_len=5))
            pool.append(ks)
        for _ in range(draw(st.integers(1, 2))):
            src = draw(st.sampled_from(pool))
            pool.append(list(draw(st.permutations(src))))
    idx = st.integers(0, len(pool) - 1)
    bins = draw(st.lists(st.sampled_from(BIN), min_size=1, max_size=4, unique=True))
    uns = draw(st.lists(st.sampled_from(UN), min_size=1, max_size=3, unique=True))
    steps = []
    for _ in range(draw(st.integers(4, 50 if tier == "thorough" else 36))):
        k = draw(st.sampled_from(["bin", "bin", "bin", "un", "un", "reg"]))
        t1, t2 = draw(st.sampled_from(TYPES)), draw(st.sampled_from(TYPES))
        if k == "bin":
            steps.append({"k": k, "op": draw(st.sampled_from(bins)), "i": draw(idx), "j": draw(idx), "ti": t1, "tj": t2})
        elif k == "un":
            steps.append({"k": k, "op": draw(st.sampled_from(uns)), "i": draw(idx), "ti": t1})
        else:
            steps.append({"k": k, "p": draw(st.integers(0, len(PROGRAMS) - 1)), "sym": draw(st.integers(0, 3)) == 0,
                          "i": draw(idx), "j": draw(idx), "ti": t1, "tj": t2})
    return {"cfg": cfg, "opts": opts, "pool": pool, "steps": steps, "vseed": draw(st.integers(0, 9))}


def cases(tier):
    return _cases(tier)


def enumerate_cases(tier):
    """Long histories, every run: one operator meets N distinct key-pattern combinations (N = 1300 quick, 4500 thorough) and then
    every one of them again, oldest first, with another coefficient type -- nothing may be generated in the second pass (a cache
    that forgets old patterns, e.g. a size-bounded one, breaks the contract only after that many patterns)."""
    from itertools import permutations
    N = 1300 if tier == "quick" else 4500
    blades = list(range(16))
    tuples = [[]] + [[k] for k in blades] + [list(p_) for p_ in permutations(blades, 2)] + [list(p_) for p_ in permutations(blades[:8], 3)]
    for op, binary in (("add", True), ("reverse", False), ("op", True)) + ((("gp", True), ("neg", False)) if tier == "thorough" else ()):
        if binary:
            side = int(N ** 0.5) + 1
            pool = tuples[:side + 1]
            pairs = [(i, j) for i in range(side) for j in range(side)][:N]
            first = [{"k": "bin", "op": op, "i": i, "j": j, "ti": "int", "tj": "int"} for i, j in pairs]
            again = [{"k": "bin", "op": op, "i": i, "j": j, "ti": "float", "tj": "Fraction"} for i, j in pairs]
        else:
            pool = tuples[:N]
            first = [{"k": "un", "op": op, "i": i, "ti": "int"} for i in range(len(pool))]
            again = [{"k": "un", "op": op, "i": i, "ti": "float"} for i in range(len(pool))]
        yield {"cfg": {"sig": [1, 1, 1, 0], "start": None, "basis": None}, "opts": "plain", "pool": pool, "steps": first + again, "vseed": 1,
               "long": True}


# ---------------------------------------------------------------------------------------------------------------------
class Counter:
    """Counts generation events while installed.  Installed per evaluate() and always removed again."""

    def __init__(self):
        self.events = []

    def install(self):
        import kingdon.codegen as cg
        import kingdon.operator_dict as od
        self.cg, self.od = cg, od
        self.had_compile = "compile" in cg.__dict__
        self.old_compile = cg.__dict__.get("compile")
        real = builtins.compile
        ev = self.events

        def counting_compile(src, fn, mode, *a, **k):
            ev.append(("compile", str(fn)))
            return real(src, fn, mode, *a, **k)
        cg.compile = counting_compile
        self.saved = {}
        for name in ("do_codegen", "do_compile"):
            orig = getattr(od, name)
            self.saved[name] = orig

            def mk(orig, name):
                def w(codegen, *mvs):
                    # an event is a generation that COMPLETED; a generation that raises caches nothing and may be retried
                    res = orig(codegen, *mvs)
                    ev.append((name, getattr(codegen, "__name__", "?") + "@" + hex(id(codegen)), tuple(tuple(m.keys()) for m in mvs)))
                    return res
                return w
            setattr(od, name, mk(orig, name))

    def remove(self):
        if self.had_compile:
            self.cg.compile = self.old_compile
        else:
            del self.cg.compile
        for name, orig in self.saved.items():
            setattr(self.od, name, orig)


def _eff_type(opname, nkeys, typ):
    """Cost guard: sympy-valued coefficients on the symbolic-heavy operators / registered functions only for patterns of
    <= 3 blades (sympy.simplify on the results of larger ones takes minutes); larger patterns get Fractions instead."""
    if typ.startswith("sympy") or typ == "mixed":
        if (opname in HEAVY or opname.startswith("registered")) and nkeys > 3:
            return "Fraction"
        if nkeys > 6:
            return "Fraction"
    return typ


def _values(keys, typ, vseed, tag):
    import numpy as np
    import sympy
    n = len(keys)
    base = [((vseed + 3 * i + 1) % 7) + 1 for i in range(n)]
    if typ == "int":
        return [b if i % 2 else -b for i, b in enumerate(base)]
    if typ == "float":
        return [b + 0.25 for b in base]
    if typ == "Fraction":
        return [F(b, 3) for b in base]
    if typ == "complex":
        return [complex(b, 1) for b in base]
    if typ == "np.float64":
        return [np.float64(b) / 2 for b in base]
    if typ == "ndarray":
        return np.array([[b, b + 1.5, -b] for b in base], dtype=float).reshape(n, 3)
    if typ == "sympy.Symbol":
        return [sympy.Symbol(f"{tag}{k}") for k in keys]
    if typ == "sympy.expr":
        return [sympy.Symbol(f"{tag}{k}") + b for k, b in zip(keys, base)]
    if typ == "mixed":
        return [sympy.Symbol(f"{tag}{k}") if i == 0 else b for i, (k, b) in enumerate(zip(keys, base))]
    if typ == "sympy.withzero":
        # symbols next to coefficients that are exactly zero (int 0, sympy zero, x - x): the key pattern is still the same
        zs = [0, sympy.Integer(0), sympy.Symbol("t") - sympy.Symbol("t"), 0.0]
        return [sympy.Symbol(f"{tag}{k}") if i % 2 == 0 else zs[(i + vseed) % len(zs)] for i, k in enumerate(keys)]
    if typ == "int.withzero":
        return [0 if i % 2 else b for i, b in enumerate(base)]
    raise KeyError(typ)


def _cache_sizes(alg):
    return sum(len(od) for od in alg.registry.values())


def evaluate(case):
    cnt = Counter()
    cnt.install()
    try:
        return _evaluate(case, cnt)
    finally:
        cnt.remove()


def _evaluate(case, cnt):
    cfg, opts = case["cfg"], case["opts"]
    alg = kd.build_algebra(cfg, wrapper=opts == "wrapper", graded=opts == "graded", cse=opts != "nocse")
    if opts == "wrapper":
        # the wrapper stands for a JIT compiler: applying it IS compiling, so every application is a generation event
        def counting_wrapper(f, _ev=cnt.events):
            _ev.append(("wrap", getattr(f, "__name__", "?") + "@" + hex(id(f)), ()))
            return kd.passthrough(f)
        alg.wrapper = counting_wrapper
    d = len(cfg["sig"])
    ev = cnt.events
    # liveness of the instrumentation on a guaranteed-new pattern
    n0 = len(ev)
    probe = kd.mk_raw(alg, alg.indices_for_grades[(0, d)] if d else (0,), [1, 2][:len(alg.indices_for_grades[(0, d)]) if d else 1])
    try:
        probe.conjugate()
    except Exception as e:
        raise HarnessError(f"liveness probe raised {e!r}")
    kinds = {e[0] for e in ev[n0:]}
    if "compile" not in kinds or "do_codegen" not in kinds:
        raise HarnessError(f"instrumentation is not alive: first call of a new pattern produced events {ev[n0:]}")
    generated = {}
    for e in ev[n0:]:
        if e[0] != "compile":
            generated[e[1:]] = "probe"
    seen = {}      # (op-key) -> {"types": set, "func": function object, "dict": operator dict}
    regs = {}
    counters = {"steps": 0, "repeats": 0, "repeats_newtype": 0, "raised": 0, "first_events": 0}
    newtype = False
    for n, step in enumerate(case["steps"]):
        ka = tuple(case["pool"][step["i"]])
        oname = step.get("op", "registered")
        two = step["k"] in ("bin", "reg") and (step["k"] == "bin" or PROGRAMS[step["p"]][0] == 2)
        nk = max(len(ka), len(case["pool"][step["j"]]) if two else 0)
        ti = _eff_type(oname, nk, step["ti"])
        va = _values(ka, ti, case["vseed"], "p")
        x = kd.mk_raw(alg, ka, va)
        args = [x]
        types = (ti,)
        if two:
            kb = tuple(case["pool"][step["j"]])
            tj = _eff_type(oname, nk, step["tj"])
            y = kd.mk_raw(alg, kb, _values(kb, tj, case["vseed"] + 1, "q"))
            args.append(y)
            types = (ti, tj)
        if step["k"] == "reg":
            rk = (step["p"], step["sym"])
            if rk not in regs:
                glob = {}
                exec(PROGRAMS[step["p"]][1], glob)
                regs[rk] = alg.register(glob["f"], symbolic=step["sym"])
            od = regs[rk]
            opname = f"registered#{step['p']}{'s' if step['sym'] else 'n'}"
            fn = lambda: od(*args)
            keys_in = tuple(tuple(a.keys()) for a in args)
        elif step["k"] == "bin":
            od = getattr(alg, step["op"])
            opname = step["op"]
            fn = lambda: od(*args)
            keys_in = tuple(tuple(a.keys()) for a in args)
        else:
            od = getattr(alg, step["op"])
            opname = step["op"]
            fn = lambda: od(args[0])
            keys_in = tuple(args[0].keys())
        mkey = (opname, keys_in)
        before_events = len(ev)
        before_size = _cache_sizes(alg)
        try:
            fn()
            returned = True
        except Exception:
            returned = False
            counters["raised"] += 1
        counters["steps"] += 1
        new = ev[before_events:]
        # global uniqueness of generation events
        for e in new:
            if e[0] == "compile":
                continue
            if e[1:] in generated:
                raise Violation("generated-at-most-once", opname, f"step {n} {step}: {e[0]} ran again for {e[1].split('@')[0]} with key "
                                f"patterns {e[2]} (first generated at step {generated[e[1:]]})", exc=e[0])
            generated[e[1:]] = n
        if mkey in seen:
            counters["repeats"] += 1
            rec = seen[mkey]
            if types not in rec["types"]:
                counters["repeats_newtype"] += 1
                newtype = True
            if new:
                raise Violation("repeat-call-generates-nothing", opname, f"step {n} {step}: pattern {keys_in} of {opname} had already "
                                f"returned (coefficient types {sorted(rec['types'])}), yet this call with types {types} caused "
                                f"{len(new)} generation event(s): {[(e[0], e[1].split('@')[0]) for e in new][:6]}", exc="events")
            if _cache_sizes(alg) != before_size:
                raise Violation("repeat-call-generates-nothing", opname, f"step {n} {step}: operator caches grew from {before_size} to "
                                f"{_cache_sizes(alg)} entries on a repeated pattern", exc="cache-size")
            cur = od.operator_dict.get(keys_in)
            if cur is None or cur[1] is not rec["func"]:
                raise Violation("repeat-call-generates-nothing", opname, f"step {n} {step}: cached function object for {keys_in} changed", exc="identity")
            rec["types"].add(types)
        elif returned:
            ent = od.operator_dict.get(keys_in)
            if ent is None:
                raise Violation("first-call-caches", opname, f"step {n} {step}: after a successful first call there is no cache entry for {keys_in}")
            seen[mkey] = {"types": {types}, "func": ent[1]}
            counters["first_events"] += len(new)
    labels = [f"d:{d}", f"opts:{opts}"]
    if case.get("long"):
        labels.append("long-history")
    if newtype:
        labels.append("repeat:newtype")
    return Info(newtype, labels, case, counters)


FINDING_PREDICATES = {}

MANIFEST_META = {
    "technique": "model-based property testing of call histories (Hypothesis): a set model of already-generated patterns vs "
                 "compile/codegen event counters installed by monkeypatching from the harness",
    "level_text": "Generated sequential histories call operators (incl. composite ones and registered functions) on a small pool of "
                  "key patterns with nine coefficient types; whenever a pattern that already returned is called again - with any "
                  "type - the counters must show zero generation events, the caches must not grow and the cached function object "
                  "must be the same; across a history no (generator, key patterns) pair may be generated twice. Liveness of the "
                  "instrumentation is asserted in every history."
                  " Three long histories (1300 distinct patterns then the same 1300 again, oldest first, with other coefficient types; 4500 in thorough) are evaluated every run."
                  " With a wrapper set, every application of the wrapper counts as a generation event.",
    "level_note": "Instrumentation hooks module attributes (kingdon.codegen.compile, kingdon.operator_dict.do_codegen/do_compile); a "
                  "refactor that renames them yields exit 2 (harness error), never a silent pass. d<=3. Sequential histories only "
                  "(the property says 'sequential').",
}
