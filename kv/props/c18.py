"""C18 -- matrix representations are faithful (asmatrix homomorphism, frommatrix, expr_as_matrix)."""
from __future__ import annotations
import os
from fractions import Fraction as F
from itertools import product

from hypothesis import strategies as st

from ..core import Violation, Info, frac
from ..refalg import RefAlgebra
from ..refops import pc
from .. import strategies as S
from .. import kd

ID = "C18"


def _f_g02(R, x):
    return (R * x).grade(0, 2)


def _f_g13(R, x):
    return (R * x).grade(1, 3)


def _f_g1(R, x):
    return (x * R).grade(1) + x.grade(1)


PROGRAMS = {
    "(R*x).grade(0,2)": (1, _f_g02), "(R*x).grade(1,3)": (1, _f_g13), "(x*R).grade(1)+x.grade(1)": (1, _f_g1),
    "R*x": (1, lambda R, x: R * x), "x*R": (1, lambda R, x: x * R), "R>>x": (1, lambda R, x: R >> x),
    "R.cp(x)": (1, lambda R, x: R.cp(x)), "R|x": (1, lambda R, x: R | x), "R^x": (1, lambda R, x: R ^ x),
    "R&x": (1, lambda R, x: R & x), "~x": (0, lambda x: ~x), "x.dual()": (0, lambda x: x.dual()),
    "(R*x).grade(1)": (1, lambda R, x: (R * x).grade(1)), "R*x*S": (2, lambda R, S_, x: R * x * S_), "x+R*x": (1, lambda R, x: x + R * x),
    "R.acp(x)": (1, lambda R, x: R.acp(x)), "x.involute()": (0, lambda x: x.involute()), "sw(R,x)": (1, None),
    "R.inv()*x": (1, lambda R, x: R.inv() * x), "x/R": (1, lambda R, x: x / R), "x*R/2": (1, lambda R, x: x * R / 2),
}
RULE = ("asmatrix: case = (algebra config d<=4 quick / d<=5 thorough: signature ordering, default or custom basis or named "
        "algebra) -> all ordered pairs of basis blades (complete by bilinearity) for (E_I*E_J).asmatrix() = E_I.asmatrix() @ "
        "E_J.asmatrix(), unit first columns (injectivity), plus generated integer multivectors in arbitrary key order for "
        "linearity, the product homomorphism, first column = coefficients in canonical order, frommatrix(asmatrix(x)) = x. "
        "expr_as_matrix: case = (config d<=3, one of 18 programs linear in the last argument (incl. R.inv()*x, x/R with integer-valued numeric R: fractional matrix entries), x symbolic with generated key "
        "order, the other inputs symbolic / numeric / array-valued, optional res_like) -> y = f(.., x) and A . coeffs(x) = "
        "coeffs(y) (expanded symbolically, per array index for arrays). Non-trivial = a pair of blades that do not commute or "
        "d>=3 or a custom basis (asmatrix); a program with >= 1 other input and x of >= 2 blades (expr_as_matrix). "
        "distinct = hash(case).")
ASSUMPTIONS = [
    "numpy integer / object matrix multiplication and sympy expand are trusted",
    "asmatrix is checked against kingdon's own geometric product (decided by C01/C02) and the reference sign table",
    "all signature orderings d<=2 with default basis are enumerated every run (d<=3 thorough)",
]
REQUIRED_LABELS = {"kind:asmatrix": 0.3, "kind:expr": 0.1, "basis:custom": 0.1}


def budget(tier):
    n = int(os.environ.get("KV_EXAMPLES", 0)) or (8000 if tier == "quick" else 20000)
    return {"examples": n, "shards": 16, "wall": 100 if tier == "quick" else 1200}


@st.composite
def _cases(draw, tier):
    kind = draw(st.sampled_from(["asmatrix", "asmatrix", "expr"]))
    if kind == "asmatrix":
        dmax = 4 if tier == "quick" else 5
        cfg = draw(S.configs(0, dmax, custom=0.35, named=True, dweights=[0, 1, 2, 2, 3, 3, 3, 4, 4] + [5] * (dmax >= 5)))
        d = len(cfg["sig"])
        a = draw(S.operand(d, max_len=10, zero_prob=0.05))
        b = draw(S.operand(d, max_len=10, zero_prob=0.05))
        return {"kind": kind, "cfg": cfg, "a": a, "b": b, "allpairs": d <= 3 or draw(st.integers(0, 3)) == 0,
                "pairs": [list(p) for p in draw(st.lists(st.tuples(st.integers(0, 2 ** d - 1), st.integers(0, 2 ** d - 1)), min_size=4, max_size=24))]}
    cfg = draw(S.configs(1, 3, custom=0.0, dweights=[1, 2, 2, 3, 3]))
    d = len(cfg["sig"])
    prog = draw(st.sampled_from(sorted(PROGRAMS)))
    nother = PROGRAMS[prog][0]
    classes = ["single", "sparse", "puregrade", "puregrade", "perm", "gradeblock"]
    x = draw(S.operand(d, classes=classes, max_len=4, min_len=1))
    others = [draw(S.operand(d, classes=classes, max_len=3, min_len=1, zero_prob=0.0)) for _ in range(nother)]
    return {"kind": kind, "cfg": cfg, "prog": prog, "x": x, "others": others,
            "okinds": [draw(st.sampled_from(["symbolic", "symbolic", "numeric", "array"])) for _ in range(nother)],
            "res_like": draw(st.sampled_from([None, None, "sub", "extra"]))}


def cases(tier):
    return _cases(tier)


def enumerate_cases(tier):
    dmax = 2 if tier == "quick" else 3
    for d in range(dmax + 1):
        for sig in product([1, -1, 0], repeat=d):
            yield {"kind": "asmatrix", "cfg": {"sig": list(sig), "start": None, "basis": None},
                   "a": {"cls": "enum", "keys": list(range(2 ** d)), "vals": [str(i + 1) for i in range(2 ** d)]},
                   "b": {"cls": "enum", "keys": list(range(2 ** d))[::-1], "vals": [str(2 * i - 3) for i in range(2 ** d)]},
                   "allpairs": True, "pairs": []}
    for name in ("2DPGA", "3DPGA"):
        sig, basis = S.NAMED[name]
        d = len(sig)
        yield {"kind": "asmatrix", "cfg": {"sig": list(sig), "start": None, "basis": list(basis), "named": name},
               "a": {"cls": "enum", "keys": list(range(2 ** d)), "vals": [str(i + 1) for i in range(2 ** d)]},
               "b": {"cls": "enum", "keys": list(range(2 ** d))[::-1], "vals": [str(2 * i - 3) for i in range(2 ** d)]},
               "allpairs": True, "pairs": []}


def _mat(x, what):
    import numpy as np
    try:
        m = x.asmatrix()
    except Exception as e:
        raise Violation("asmatrix-returns", "asmatrix", f"{what}.asmatrix() raised {type(e).__name__}: {e}", exc=type(e).__name__)
    return np.array(m, dtype=object)


def _eqm(a, b):
    import numpy as np
    a, b = np.asarray(a, dtype=object), np.asarray(b, dtype=object)
    if a.shape == () or b.shape == ():
        # the empty multivector's matrix is the plain number 0 (sum of no terms): equal to the zero matrix by broadcasting
        return bool(np.all(a == b))
    return a.shape == b.shape and bool((a == b).all())


def evaluate(case):
    if case["kind"] == "asmatrix":
        return _asmatrix(case)
    return _expr(case)


def _asmatrix(case):
    import numpy as np
    cfg = case["cfg"]
    ref = RefAlgebra(cfg)
    d = ref.d
    n = 2 ** d
    alg = kd.build_algebra(cfg)
    labels = ["kind:asmatrix", f"d:{d}", "basis:named" if cfg.get("named") else ("basis:custom" if cfg.get("basis") else "basis:default")]
    if cfg.get("named"):
        labels.append("basis:custom")
    B = {k: alg.blades[ref.bin2name[k]] for k in range(n)}
    M = {k: _mat(B[k], ref.bin2name[k]) for k in range(n)}
    canon = list(ref.canon_keys)
    units = []
    # first column = coefficients in canonical order (unit vectors for basis blades -> injective on the basis)
    for k in range(n):
        col = list(M[k][:, 0])
        exp = [1 if c == k else 0 for c in canon]
        if col != exp:
            raise Violation("first-column", "asmatrix", f"first column of {ref.bin2name[k]}.asmatrix() is {col}, expected the unit vector "
                            f"at position {canon.index(k)} (canonical order {[ref.bin2name[c] for c in canon]})")
    pairs = [(i, j) for i in range(n) for j in range(n)] if case["allpairs"] else [tuple(p) for p in case["pairs"]]
    for i, j in pairs:
        s = ref.T(i, j)
        exp = (M[i ^ j] * s) if s else np.zeros((n, n), dtype=object)
        got = M[i] @ M[j]
        if not _eqm(got, exp):
            raise Violation("homomorphism", "asmatrix", f"{ref.bin2name[i]}.asmatrix() @ {ref.bin2name[j]}.asmatrix() != "
                            f"({ref.bin2name[i]}*{ref.bin2name[j]}).asmatrix() = {s:+d}*{ref.bin2name[i ^ j]} in signature {ref.sig}, "
                            f"basis {cfg.get('basis')}")
        units.append(([cfg["sig"], cfg.get("basis"), i, j], bool(ref.T(i, j) != ref.T(j, i)) or d >= 3 or bool(cfg.get("basis"))))
    # generated multivectors (ints): linearity, product, first column, frommatrix
    ka, va = case["a"]["keys"], [int(frac(v).numerator) for v in case["a"]["vals"]]
    kb, vb = case["b"]["keys"], [int(frac(v).numerator) for v in case["b"]["vals"]]
    x, y = kd.mk(alg, ka, va), kd.mk(alg, kb, vb)
    if ka:
        mx = _mat(x, "x")
        lin = sum((M[k] * v for k, v in zip(ka, va)), np.zeros((n, n), dtype=object))
        if not _eqm(mx, lin):
            raise Violation("linear", "asmatrix", f"x.asmatrix() for keys {ka} is not the linear combination of the blade matrices")
        dx = dict(zip(ka, va))
        col = [mx[r, 0] for r in range(n)]
        if col != [dx.get(c, 0) for c in canon]:
            raise Violation("first-column", "asmatrix", f"first column of x.asmatrix() is {col}, coefficients in canonical order are "
                            f"{[dx.get(c, 0) for c in canon]} (keys stored as {ka})")
        try:
            back = kd.to_dict(kd.MultiVector.frommatrix(alg, np.array(mx.tolist(), dtype=object)), op="frommatrix")
        except Exception as e:
            raise Violation("frommatrix-inverts", "frommatrix", f"frommatrix(x.asmatrix()) raised {type(e).__name__}: {e}", exc=type(e).__name__)
        ok, why = kd.elem_equal(back, dx)
        if not ok:
            raise Violation("frommatrix-inverts", "frommatrix", f"frommatrix(x.asmatrix()) != x: {why}")
        if kb:
            my = _mat(y, "y")
            mxy = _mat(x * y, "x*y")
            if not _eqm(mx @ my, mxy):
                raise Violation("homomorphism", "asmatrix", f"(x*y).asmatrix() != x.asmatrix() @ y.asmatrix() for keys {ka} x {kb}")
            msum = _mat(x + y, "x+y")
            if not _eqm(mx + my, msum):
                raise Violation("linear", "asmatrix", f"(x+y).asmatrix() != x.asmatrix() + y.asmatrix()")
    return Info(True, labels, [cfg["sig"], cfg.get("basis"), ka, kb], units=units or [([cfg["sig"], cfg.get("basis"), "mv", ka, kb], d >= 3)])


def _expr(case):
    import numpy as np
    import sympy
    from kingdon.matrixreps import expr_as_matrix
    cfg = case["cfg"]
    alg = kd.build_algebra(cfg)
    d = len(cfg["sig"])
    prog = case["prog"]
    nother, fn = PROGRAMS[prog]
    if prog == "sw(R,x)":
        fn = alg.sw
    registered = False
    if getattr(fn, "__name__", "").startswith("_f_g") and (len(case["x"]["keys"]) + d) % 2 == 0:
        # the documented use: a compiled (registered) function handed to expr_as_matrix
        fn = alg.register(fn)
        registered = True
    if prog == "x.dual()" and cfg["sig"].count(0) > 1:
        return Info(False, ["kind:expr", "skipped:dual-undefined"], None)
    x = alg.multivector(name="x", keys=tuple(case["x"]["keys"]))
    others = []
    okinds = list(case["okinds"])
    if "array" in okinds:
        # the documentation promises array-valued inputs when the other inputs are numeric ("the returned matrix A will be
        # numerical"); a mix of symbolic and array-valued inputs is not promised, so symbolic ones become numeric here
        okinds = ["numeric" if k == "symbolic" else k for k in okinds]
    for i, (o, kind) in enumerate(zip(case["others"], okinds)):
        keys = tuple(o["keys"])
        if kind == "symbolic":
            others.append(alg.multivector(name="RS"[i], keys=keys))
        elif kind == "numeric":
            vals_ = [int(frac(v).numerator) or 1 for v in o["vals"]]
            if prog in ("R.inv()*x", "x/R"):
                vals_ = [v + 3 * (1 if v > 0 else -1) if i == 0 else v for i, v in enumerate(vals_)]   # dominant first coefficient
            others.append(alg.multivector(keys=keys, values=vals_))
        else:
            arr = np.array([[float(frac(v)) + 0.5 * t for t in range(3)] for v in o["vals"]])
            others.append(kd.mk_raw(alg, keys, arr))
    res_like = None
    labels = ["kind:expr", f"prog:{prog}", f"d:{d}"] + [f"other:{k}" for k in case["okinds"]] + (["registered-function"] if registered else [])
    arrays = "array" in case["okinds"]
    try:
        # array-valued inputs cannot be multiplied with a symbolic x directly (that is what expr_as_matrix works around);
        # the plain value is then taken per array index further down
        y_plain = fn(*[(o[0] if kd_is_array(o) else o) for o in others], x)
    except Exception as e:
        return Info(False, labels + ["plain-raised"], None, {"plain-raised:" + type(e).__name__: 1})
    if case["res_like"] and len(y_plain.keys()) >= 1:
        yk = list(y_plain.keys())
        sel = yk[::2] if case["res_like"] == "sub" else yk[:1] + [k for k in range(2 ** d) if k not in yk][:1]
        res_like = alg.multivector(keys=tuple(sel), values=[1] * len(sel))
        labels.append("res_like")
    try:
        A, y = expr_as_matrix(fn, *others, x, res_like=res_like)
    except Exception as e:
        raise Violation("expr_as_matrix-returns", prog, f"expr_as_matrix({prog}) with inputs {case['okinds']} keys x={case['x']['keys']} "
                        f"others={[o['keys'] for o in case['others']]} res_like={res_like and list(res_like.keys())} raised "
                        f"{type(e).__name__}: {e}", exc=type(e).__name__)
    xvals = list(x.values())
    ykeys = list(y.keys())
    if res_like is not None and ykeys != list(res_like.keys()):
        raise Violation("res_like-selects-rows", prog, f"y has keys {ykeys}, res_like asked for {list(res_like.keys())}")
    # y must be f(.., x)
    yp = kd.to_dict(y_plain, op=prog)

    def zero(expr):
        if arrays:
            return np.allclose(np.asarray(expr, dtype=float), 0.0, atol=1e-9)
        if isinstance(expr, (int, float)):
            return abs(expr) < 1e-12
        e = sympy.expand(sympy.sympify(expr))
        if e == 0:
            return True
        if e.atoms(sympy.Float):
            # numeric (float) inputs: compare coefficient-wise at 1e-9 instead of demanding exact cancellation
            try:
                syms = sorted(e.free_symbols, key=str)
                cs = sympy.Poly(e, *syms).coeffs() if syms else [e]
                return all(abs(complex(c)) < 1e-9 for c in cs)
            except Exception:
                return False
        return False

    yd = kd.to_dict(y, op=prog)
    for k in ykeys:
        want = yp.get(k, 0)
        if arrays:
            # y is evaluated numerically per array index; compare by substituting nothing (x stays symbolic): check A x instead
            continue
        if not zero(sympy.sympify(yd[k]) - sympy.sympify(want)):
            raise Violation("y=f(x)", prog, f"returned y has {yd[k]} on blade {k}, f(..,x) has {want}")
    # A . coeffs(x) == coeffs(y)
    A_ = np.asarray(A, dtype=object) if not arrays else None
    if not arrays:
        if A_.shape != (len(ykeys), len(xvals)):
            raise Violation("A.x=y", prog, f"A has shape {A_.shape}, expected ({len(ykeys)}, {len(xvals)})")
        for i, k in enumerate(ykeys):
            lhs = sum((sympy.sympify(A_[i, j]) * xvals[j] for j in range(len(xvals))), sympy.Integer(0))
            if not zero(lhs - sympy.sympify(yp.get(k, 0))):
                raise Violation("A.x=y", prog, f"row {i} (blade {k}) of A times coeffs(x) = {sympy.expand(lhs)} but f(..,x) has "
                                f"{sympy.expand(sympy.sympify(yp.get(k, 0)))} there ({prog}, x keys {case['x']['keys']}, inputs {case['okinds']})")
    else:
        # array-valued other inputs: check each array index t by evaluating the plain function on the t-th slice
        for t in range(3):
            oth_t = [(o[t] if kd_is_array(o) else o) for o in others]
            try:
                yt = kd.to_dict(fn(*oth_t, x), op=prog)
            except Exception as e:
                return Info(False, labels + ["plain-raised"], None, {"plain-raised:" + type(e).__name__: 1})
            rows = [list(r_) for r_ in A]
            if res_like is not None and list(y.keys()) != list(res_like.keys()):
                raise Violation("res_like-selects-rows", prog, f"array-valued input: y has keys {list(y.keys())}, res_like asked for {list(res_like.keys())}")
            if len(rows) != len(ykeys) or any(len(r_) != len(xvals) for r_ in rows):
                raise Violation("A.x=y", prog, f"A has {len(rows)} rows of lengths {[len(r_) for r_ in rows]}, expected {len(ykeys)} x {len(xvals)}")
            for i, k in enumerate(ykeys):
                row = rows[i]
                lhs = sympy.Integer(0)
                for j in range(len(xvals)):
                    a_ij = row[j]
                    a_ij = np.asarray(a_ij, dtype=float)
                    a_ij = float(a_ij[t]) if a_ij.ndim else float(a_ij)
                    lhs += sympy.Float(a_ij) * xvals[j]
                diff = sympy.expand(lhs - sympy.sympify(yt.get(k, 0)))
                coeffs = [abs(float(c)) for c in sympy.Poly(diff, *xvals).coeffs()] if diff != 0 else [0.0]
                if max(coeffs) > 1e-9:
                    raise Violation("A.x=y", prog, f"array-valued input, index {t}: row {i} (blade {k}) of A times coeffs(x) differs from "
                                    f"f(..,x): residual {diff}")
    nontrivial = nother >= 1 and len(xvals) >= 2
    return Info(nontrivial, labels, [cfg["sig"], prog, case["x"]["keys"], [o["keys"] for o in case["others"]], case["okinds"], case["res_like"]])


def kd_is_array(mv):
    return len(mv.shape) > 1


FINDING_PREDICATES = {}

MANIFEST_META = {
    "technique": "property-based + enumerated algebraic-law testing: matrix representation checked as an injective algebra "
                 "homomorphism on all basis-blade pairs and generated multivectors; expr_as_matrix checked by A.x = y on generated "
                 "linear programs",
    "level_text": "For generated and enumerated algebras (all signature orderings d<=2 quick / d<=3 thorough, sampled d<=4/5, custom and "
                  "named bases) every ordered pair of basis blades is checked for (E_I*E_J).asmatrix() = E_I.asmatrix() @ E_J.asmatrix() "
                  "against the reference table, first columns must be the unit vectors in canonical order, and generated multivectors "
                  "in arbitrary key order must be linear, multiplicative and invertible through frommatrix. expr_as_matrix is run on 15 "
                  "linear programs with symbolic / numeric / array-valued inputs and res_like and A.coeffs(x) - coeffs(f(x)) must expand "
                  "to zero."
                  " Programs with non-adjacent grade selections, half of them passed to expr_as_matrix as registered functions.",
    "level_note": "Trusted: numpy matmul, sympy expand, kv.refalg. expr_as_matrix limited to d<=3 (sympy cost).",
}
