"""C15 -- multivector construction and coefficient access round-trip."""
from __future__ import annotations
import os
from fractions import Fraction as F
from itertools import permutations

from hypothesis import strategies as st

from ..core import Violation, Info, frac, fstr
from ..refalg import RefAlgebra
from ..refops import pc
from .. import strategies as S
from .. import kd

ID = "C15"
FORMS = ["values+intkeys", "values+namekeys", "values+mixedkeys", "mapping-int", "mapping-name", "kw-canonical", "kw-permuted", "kw-permuted",
         "grades", "convenience", "named-symbolic", "string-values", "fromkeysvalues", "blades-sum", "invalid", "invalid"]
CONVENIENCE = ["vector", "bivector", "trivector", "quadvector", "pseudoscalar", "pseudovector", "pseudobivector", "pseudotrivector",
               "pseudoquadvector", "evenmv", "oddmv", "purevector", "scalar"]
RULE = ("case = (algebra: default / random custom basis / named, graded or not, d<=4; a truth map {blade: Fraction} drawn first "
        "(any subset, any order, explicit zeros); a construction form from {values+int keys, values+name keys, mixed keys, "
        "mapping with int / name keys, keyword blades canonical, keyword blades with arbitrary permuted spellings (sign by "
        "parity, even and odd), values+grades=, 13 convenience constructors, name= symbolic, string values, fromkeysvalues, "
        "sum of alg.blades, invalid input by construction}). After construction every accessor is compared with the truth "
        "map: attribute access with every spelling of every blade, items(), keys order, containment by int and by name, "
        "grade(), grades, asfullmv(True/False), map (1- and 2-argument), filter (default, 1- and 2-argument), len. Invalid "
        "inputs (length mismatch, key outside declared grades, grade outside 0..d, incomplete grades in graded mode) must "
        "raise. Non-trivial = >= 1 permuted spelling used in construction, or non-canonical key order, or an invalid-input "
        "case. distinct = hash(config, form, keys, spellings).")
ASSUMPTIONS = [
    "truth map and spelling parities are computed by the harness (kv.refalg) from the generated configuration",
    "absent blades read as 0; a permuted spelling reads/writes with the sign of the permutation parity; stored zeros are kept",
    "invalid inputs must raise any of TypeError/ValueError/KeyError/AssertionError/IndexError instead of returning a multivector",
]
REQUIRED_LABELS = {"form:kw-permuted": 0.05, "form:invalid": 0.05, "alg:graded": 0.05, "basis:custom": 0.1}


def budget(tier):
    n = int(os.environ.get("KV_EXAMPLES", 0)) or (32000 if tier == "quick" else 300000)
    return {"examples": n, "shards": 16, "wall": 90 if tier == "quick" else 900, "fuzz_runs": 60000 if tier == "thorough" else 0}


@st.composite
def _cases(draw):
    cfg = draw(S.configs(0, 4, custom=0.3, named=True, dweights=[0, 1, 2, 2, 3, 3, 3, 4, 4]))
    d = len(cfg["sig"])
    n = 2 ** d
    graded = draw(st.integers(0, 5)) == 0 and not cfg.get("named")
    form = draw(st.sampled_from(FORMS))
    if graded or form in ("grades",):
        _, keys = draw(S.key_tuples(d, classes=["gradeblock"]))
    elif form in ("kw-canonical", "kw-permuted", "blades-sum"):
        _, keys = draw(S.key_tuples(d, classes=["single", "sparse", "sparse", "puregrade", "fullcanon", "gradeblock"], min_len=1))
        keys = list(S.canon_sorted(keys))
    else:
        _, keys = draw(S.key_tuples(d))
    vals = [draw(S.fracs(zero_prob=0.1)) for _ in keys]
    case = {"cfg": cfg, "graded": graded, "form": form, "keys": keys, "vals": vals}
    if form == "kw-permuted":
        case["spell"] = [list(draw(st.permutations([j for j in range(d) if k >> j & 1]))) for k in keys]
    if form == "values+mixedkeys":
        case["asname"] = [draw(st.booleans()) for _ in keys]
    if form == "convenience":
        case["ctor"] = draw(st.sampled_from(CONVENIENCE))
        case["g"] = draw(st.integers(0, d))
        case["how"] = draw(st.sampled_from(["values", "kw", "keys"]))
    if form == "invalid":
        case["bad"] = draw(st.sampled_from(["length", "length-short", "key-outside-grades", "grade-out-of-range", "graded-incomplete",
                                            "graded-order", "key-outside-grades-named", "key-outside-grades-convenience"]))
        case["g"] = draw(st.integers(0, d))
        if case["bad"].startswith("graded"):
            case["graded"] = True
    case["probe"] = [list(draw(st.permutations([j for j in range(d) if k >> j & 1]))) for k in
                     draw(st.lists(st.integers(0, n - 1), min_size=1, max_size=6))]
    return case


def cases(tier):
    return _cases()


def _sign(ref, bits):
    """(sign, key) of the blade spelled by generator bit positions `bits` relative to the named canonical blade."""
    sp = "".join(ref.gens[j] for j in bits)
    s, key = ref.spelled(sp)
    return s, key, "e" + sp


def _call(fn, clause, op):
    try:
        return fn()
    except Violation:
        raise
    except Exception as e:
        raise Violation(clause, op, f"raised {type(e).__name__}: {e}", exc=type(e).__name__)


def evaluate(case):
    cfg, form = case["cfg"], case["form"]
    ref = RefAlgebra(cfg)
    d = ref.d
    alg = kd.build_algebra(cfg, graded=bool(case["graded"]))
    keys = list(case["keys"])
    if case["graded"] or form == "grades":
        # complete grades in the algebra's own canonical order (for custom bases: the order of the basis list)
        keys = list(ref.keys_of_grades({pc(k) for k in keys}))[:len(keys)] if keys else keys
    elif form in ("kw-canonical", "kw-permuted", "blades-sum"):
        keys = [k for k in ref.canon_keys if k in keys]
    vals = [frac(v) for v in case["vals"]]
    truth = dict(zip(keys, vals))
    order_known = True
    labels = [f"form:{form}", f"d:{d}", "alg:graded" if case["graded"] else "alg:plain",
              "basis:custom" if cfg.get("basis") else "basis:default"]
    permuted_used = False
    names = [ref.bin2name[k] for k in keys]

    if form == "invalid":
        return _invalid(case, alg, ref, keys, vals, labels)
    if form == "values+intkeys":
        x = _call(lambda: alg.multivector(values=list(vals), keys=tuple(keys)) if keys else alg.multivector(values=[], keys=()), "construct", form)
    elif form == "values+namekeys":
        x = _call(lambda: alg.multivector(values=list(vals), keys=tuple(names)) if keys else alg.multivector(values=[], keys=()), "construct", form)
    elif form == "values+mixedkeys":
        mk = tuple(nm if f else k for k, nm, f in zip(keys, names, case["asname"]))
        x = _call(lambda: alg.multivector(values=list(vals), keys=mk) if keys else alg.multivector(values=[], keys=()), "construct", form)
    elif form == "mapping-int":
        x = _call(lambda: alg.multivector(dict(zip(keys, vals))), "construct", form)
    elif form == "mapping-name":
        x = _call(lambda: alg.multivector(dict(zip(names, vals))), "construct", form)
    elif form == "kw-canonical":
        x = _call(lambda: alg.multivector(**dict(zip(names, vals))), "construct", form)
    elif form == "kw-permuted":
        kw = {}
        spell = {sum(1 << j for j in bits): bits for bits in case["spell"]}
        for k, v in zip(keys, vals):
            s, key, nm = _sign(ref, spell[k])
            assert key == k
            kw[nm] = v if s > 0 else -v       # supply the coefficient of the SPELLED blade such that the canonical one is v
            if nm != ref.bin2name[k]:
                permuted_used = True
        x = _call(lambda: alg.multivector(**kw), "construct", form)
        labels.append("spelling:permuted" if permuted_used else "spelling:canonical")
    elif form == "grades":
        gs = tuple(sorted({pc(k) for k in keys}))
        x = _call(lambda: alg.multivector(values=list(vals), grades=gs), "construct", form)
    elif form == "convenience":
        return _convenience(case, alg, ref, labels)
    elif form == "named-symbolic":
        import sympy
        x = _call(lambda: alg.multivector(name="q", keys=tuple(keys)) if keys else alg.multivector(name="q"), "construct", form)
        if not keys:
            keys = list(ref.canon_keys)
        truth = {k: sympy.Symbol("q" + ref.bin2name[k][1:]) for k in keys}
    elif form == "string-values":
        import sympy
        svals = [f"s{k} + {v}" for k, v in zip(keys, vals)]
        x = _call(lambda: alg.multivector(values=svals, keys=tuple(keys)) if keys else alg.multivector(values=[], keys=()), "construct", form)
        truth = {k: sympy.Symbol(f"s{k}") + sympy.Rational(v.numerator, v.denominator) for k, v in zip(keys, vals)}
    elif form == "fromkeysvalues":
        x = kd.MultiVector.fromkeysvalues(alg, tuple(keys), list(vals))
    elif form == "blades-sum":
        def build():
            acc = None
            for nm, v in zip(names, vals):
                term = alg.blades[nm] * v
                acc = term if acc is None else acc + term
            return acc
        x = _call(build, "construct", form)
        order_known = False
        if case["graded"]:
            # in graded mode blades are complete-grade multivectors; the sum stores complete grades
            full = {k: F(0) for k in ref.keys_of_grades({pc(k) for k in keys})}
            full.update(truth)
            truth = full
    else:
        raise KeyError(form)
    _check_accessors(x, truth, keys if order_known and form not in ("mapping-int", "mapping-name", "kw-canonical", "kw-permuted", "grades") else None,
                     alg, ref, case, form)
    noncanon = not S.is_canonical(keys)
    labels.append("order:noncanonical" if noncanon else "order:canonical")
    key = [cfg["sig"], cfg.get("start"), cfg.get("basis"), case["graded"], form, case["keys"], case.get("spell"), case.get("asname")]
    return Info(permuted_used or noncanon, labels, key)


def _eq(a, b):
    try:
        return bool(a == b)
    except Exception:
        return False


def _check_accessors(x, truth, order, alg, ref, case, form):
    d = ref.d
    _check_accessors_inner(x, truth, order, alg, ref, case, form)
    # reading must not write: after every accessor above the multivector still holds exactly the supplied coefficients
    after = kd.to_dict(x, op=form)
    if set(after) != set(truth) or any(not _eq(after[k], truth[k]) for k in truth):
        raise Violation("items-reflect-input", form, f"the accessors changed the multivector: now {kd.show(after)}, supplied {kd.show(truth)}")
    # the same element with an infinite first coefficient and with array-valued coefficients: absent blades still read 0,
    # reading through an odd spelling does not negate the stored arrays
    import numpy as np
    keys = list(truth)
    if keys and all(isinstance(v, (int, F)) for v in truth.values()) and not case["graded"]:
        xi = kd.mk_raw(alg, keys, [float("inf")] + [float(truth[k]) for k in keys[1:]])
        full = xi.asfullmv()
        for k, v in zip(full.keys(), full.values()):
            if k not in truth and not (v == 0):
                raise Violation("asfullmv", "asfullmv", f"asfullmv() of a multivector whose first coefficient is inf reads {v!r} on the absent blade "
                                f"{ref.bin2name[k]} (expected 0)")
        arr = [np.array([float(truth[k]), float(truth[k]) + 1.0]) for k in keys]
        xa = kd.mk_raw(alg, keys, [a.copy() for a in arr])
        for bits in case["probe"][:4]:
            s_, key, nm = _sign(ref, bits)
            g = getattr(xa, nm)
            exp = (arr[keys.index(key)] * s_) if key in truth else 0
            if not np.allclose(np.asarray(g, dtype=float), np.asarray(exp, dtype=float)):
                raise Violation("attribute-access", "getattr", f"array-valued x.{nm} = {g!r}, expected {exp!r}")
        for a0, a1 in zip(arr, xa.values()):
            if not np.array_equal(a0, np.asarray(a1)):
                raise Violation("attribute-access", "getattr", f"reading coefficients changed the stored arrays: {[list(a) for a in arr]} -> "
                                f"{[list(np.asarray(a)) for a in xa.values()]}")


def _check_accessors_inner(x, truth, order, alg, ref, case, form):
    d = ref.d
    if not isinstance(x, kd.MultiVector):
        raise Violation("construct", form, f"constructor returned {type(x).__name__}")
    got = kd.to_dict(x, op=form)
    if set(got) != set(truth):
        raise Violation("items-reflect-input", form, f"stored blades {sorted(got)} but supplied {sorted(truth)} (a coefficient was "
                        f"dropped or invented)", observed=kd.show(got), expected=kd.show(truth))
    for k in truth:
        if not _eq(got[k], truth[k]):
            raise Violation("items-reflect-input", form, f"coefficient of blade {ref.bin2name[k]} is {got[k]!r}, supplied {truth[k]!r}",
                            observed=kd.show(got), expected=kd.show(truth))
    if order is not None and list(x.keys()) != list(order):
        raise Violation("items-reflect-input", form, f"keys() = {list(x.keys())} but the supplied order was {list(order)}")
    if len(x) != len(truth):
        raise Violation("items-reflect-input", form, f"len = {len(x)} for {len(truth)} supplied coefficients")
    # attribute access: canonical name of every blade + probed permuted spellings
    probes = [[j for j in range(d) if k >> j & 1] for k in (range(2 ** d) if d <= 3 else list(truth)[:8])] + case["probe"]
    for bits in probes:
        s, key, nm = _sign(ref, bits)
        exp = truth.get(key, 0)
        exp = exp if s > 0 else -exp
        g = _call(lambda: getattr(x, nm), "attribute-access", "getattr")
        if not _eq(g, exp):
            raise Violation("attribute-access", "getattr", f"x.{nm} = {g!r}, expected {exp!r} ({'+' if s > 0 else '-'} coefficient of "
                            f"{ref.bin2name[key]}; stored {kd.show(got)})")
    # canonical names given by the algebra for the custom basis
    for k in list(truth)[:6]:
        nm = ref.bin2name[k]
        g = getattr(x, nm)
        if not _eq(g, truth[k]):
            raise Violation("attribute-access", "getattr", f"x.{nm} = {g!r}, supplied {truth[k]!r}")
    # containment
    for k in list(range(2 ** d))[:16]:
        for item in (k, ref.bin2name[k]):
            c = _call(lambda: item in x, "containment", "in")
            if c != (k in truth):
                raise Violation("containment", "in", f"({item!r} in x) = {c}, stored blades {sorted(truth)}")
    # grades / grade()
    exp_grades = tuple(sorted({pc(k) for k in truth}))
    if tuple(x.grades) != exp_grades:
        raise Violation("grade-selection", "grades", f"x.grades = {x.grades}, expected {exp_grades}")
    for g in range(d + 1):
        sel = kd.to_dict(_call(lambda: x.grade(g), "grade-selection", "grade"), op="grade")
        exp = {k: v for k, v in truth.items() if pc(k) == g}
        if set(sel) != set(exp) or any(not _eq(sel[k], exp[k]) for k in exp):
            raise Violation("grade-selection", "grade", f"x.grade({g}) = {kd.show(sel)}, expected {kd.show(exp)}")
    # asfullmv
    for canonical in (True, False):
        if case["graded"] and not canonical:
            continue
        f = _call(lambda: x.asfullmv(canonical=canonical), "asfullmv", "asfullmv")
        exp_keys = list(ref.canon_keys) if canonical else list(range(2 ** d))
        if list(f.keys()) != exp_keys:
            raise Violation("asfullmv", "asfullmv", f"asfullmv(canonical={canonical}).keys() = {list(f.keys())}, expected {exp_keys}")
        for k, v in zip(f.keys(), f.values()):
            if not _eq(v, truth.get(k, 0)):
                raise Violation("asfullmv", "asfullmv", f"asfullmv(canonical={canonical}) has {v!r} on {ref.bin2name[k]}, expected {truth.get(k, 0)!r}")
    # map / filter
    m1 = kd.to_dict(_call(lambda: x.map(lambda v: 2 * v), "map", "map"), op="map")
    m2 = kd.to_dict(_call(lambda: x.map(lambda k, v: v * (k + 1)), "map", "map"), op="map")
    for k, v in truth.items():
        if not _eq(m1.get(k), 2 * v) or not _eq(m2.get(k), v * (k + 1)):
            raise Violation("map", "map", f"map results {kd.show(m1)} / {kd.show(m2)} for stored {kd.show(truth)}")
    if set(m1) != set(truth) or set(m2) != set(truth):
        raise Violation("map", "map", f"map changed the stored blades: {sorted(m1)} / {sorted(m2)} vs {sorted(truth)}")
    numeric = all(isinstance(v, (int, F)) for v in truth.values())
    if numeric:
        # classes / builtins as the mapped function (type conversion): called with the coefficient alone, whatever their signature
        for conv_ in (F, float, complex, abs):
            mc = kd.to_dict(_call(lambda: x.map(conv_), "map", "map"), op="map")
            expc = {k: conv_(v) for k, v in truth.items()}
            if set(mc) != set(expc) or any(not (mc[k] == expc[k]) for k in expc):
                raise Violation("map", "map", f"map({conv_.__name__}) = {kd.show(mc)}, expected {kd.show(expc)}")
        fb_ = kd.to_dict(_call(lambda: x.filter(bool), "filter", "filter"), op="filter")
        if fb_ != {k: v for k, v in truth.items() if v}:
            raise Violation("filter", "filter", f"filter(bool) = {kd.show(fb_)}, expected the non-zero coefficients of {kd.show(truth)}")
        # grade selection of the ARGUMENT of a compiled (registered) function reads the same coefficients
        if not case["graded"] and len(truth) <= 12:
            gsel = tuple(sorted({pc(k) for k in truth}))[:2] or (0,)

            def f_grade(a, _g=gsel):
                return a.grade(*_g)
            rg = kd.to_dict(_call(lambda: alg.register(f_grade)(x), "grade-selection", "grade"), op="grade")
            eg = {k: v for k, v in truth.items() if pc(k) in gsel}
            if set(rg) != set(eg) or any(not _eq(rg[k], eg[k]) for k in eg):
                raise Violation("grade-selection", "grade", f"alg.register(lambda a: a.grade{gsel})(x) = {kd.show(rg)} for x with keys {list(x.keys())}, "
                                f"expected {kd.show(eg)}")
        f0 = kd.to_dict(_call(lambda: x.filter(), "filter", "filter"), op="filter")
        f1 = kd.to_dict(_call(lambda: x.filter(lambda v: v > 0), "filter", "filter"), op="filter")
        f2 = kd.to_dict(_call(lambda: x.filter(lambda k, v: k % 2 == 0), "filter", "filter"), op="filter")
        e0 = {k: v for k, v in truth.items() if v}
        e1 = {k: v for k, v in truth.items() if v > 0}
        e2 = {k: v for k, v in truth.items() if k % 2 == 0}
        for what, g_, e_ in (("filter()", f0, e0), ("filter(v>0)", f1, e1), ("filter(k even)", f2, e2)):
            if g_ != e_:
                raise Violation("filter", "filter", f"{what} = {kd.show(g_)}, expected {kd.show(e_)}")


def _convenience(case, alg, ref, labels):
    d = ref.d
    ctor, g = case["ctor"], case["g"]
    grades = {"vector": [1], "bivector": [2], "trivector": [3], "quadvector": [4], "pseudoscalar": [d], "pseudovector": [d - 1],
              "pseudobivector": [d - 2], "pseudotrivector": [d - 3], "pseudoquadvector": [d - 4],
              "evenmv": [k for k in range(d + 1) if k % 2 == 0], "oddmv": [k for k in range(d + 1) if k % 2 == 1],
              "purevector": [g], "scalar": [0]}[ctor]
    valid = all(0 <= k <= d for k in grades)
    gkeys = list(ref.keys_of_grades(grades)) if valid else []
    vals = [F(i + 2, 3) * (-1) ** i for i in range(len(gkeys))]
    kwargs = {"grade": g} if ctor == "purevector" else {}
    fn = getattr(alg, ctor)
    how = case["how"]
    if not valid:
        try:
            r = fn(values=[1], **kwargs)
        except Exception:
            return Info(True, labels + ["form:invalid", f"ctor:{ctor}"], None, {"invalid-grade-raised": 1})
        raise Violation("invalid-input-raises", ctor, f"alg.{ctor}(...) for d={d} needs grade(s) {grades} outside 0..{d} but returned "
                        f"{kd.show(kd.to_dict(r))}")
    truth = dict(zip(gkeys, vals))
    if how == "values" or not gkeys:
        x = _call(lambda: fn(list(vals), **kwargs), "construct", ctor)
    elif how == "kw":
        sub = gkeys[::2] if len(gkeys) > 1 and not case["graded"] else gkeys
        truth = {k: truth[k] for k in sub}
        x = _call(lambda: fn(**{ref.bin2name[k]: truth[k] for k in sub}, **kwargs), "construct", ctor)
    else:
        sub = gkeys[::-1] if not case["graded"] else gkeys
        truth = {k: truth[k] for k in sub}
        x = _call(lambda: fn(values=[truth[k] for k in sub], keys=tuple(sub), **kwargs), "construct", ctor)
    _check_accessors(x, truth, None, alg, ref, case, ctor)
    return Info(len(truth) >= 2, labels + [f"ctor:{ctor}"], [case["cfg"], ctor, g, how, case["graded"]])


def _invalid(case, alg, ref, keys, vals, labels):
    d = ref.d
    bad = case["bad"]
    g = case["g"]
    gk = list(ref.keys_of_grades([g]))
    if bad == "length":
        attempt = lambda: alg.multivector(values=list(vals) + [F(1)], keys=tuple(keys))
        applicable = bool(keys)     # without keys a value list of length 2^d is a valid full multivector
    elif bad == "length-short":
        attempt = lambda: alg.multivector(values=list(vals)[:-1], keys=tuple(keys))
        applicable = len(keys) >= 2
    elif bad == "key-outside-grades":
        other = [k for k in range(2 ** d) if pc(k) != g]
        applicable = bool(other) and bool(gk)
        attempt = lambda: alg.multivector(values=[F(1)] * (len(gk) + 1), keys=tuple(gk + other[:1]), grades=(g,))
    elif bad == "key-outside-grades-named":
        # the same inconsistency in a by-name (symbolic) construction, keys as bitmasks or blade names
        other = [k for k in range(2 ** d) if pc(k) != g]
        applicable = bool(other) and bool(gk)
        ks = gk[:2] + other[:1]
        if len(keys) % 2:
            ks = [ref.bin2name[k] for k in ks]
        attempt = lambda: alg.multivector(name="x", keys=tuple(ks), grades=(g,))
    elif bad == "key-outside-grades-convenience":
        ctor, cg = [("scalar", 0), ("vector", 1), ("bivector", 2), ("trivector", 3)][g % 4]
        other = [k for k in range(2 ** d) if pc(k) != cg]
        applicable = bool(other) and cg <= d and hasattr(alg, ctor)
        named = len(keys) % 2 == 0
        attempt = (lambda: getattr(alg, ctor)(name="x", keys=(other[-1],))) if named else \
            (lambda: getattr(alg, ctor)(values=[F(7)], keys=(other[-1],), name="s"))
    elif bad == "grade-out-of-range":
        attempt = lambda: alg.multivector(values=[F(1)], grades=(d + 1 + g,))
        applicable = True
    elif bad == "graded-incomplete":
        applicable = len(gk) >= 2
        attempt = lambda: alg.multivector(values=[F(1)] * (len(gk) - 1), keys=tuple(gk[:-1]))
    else:  # graded-order
        applicable = len(gk) >= 2
        attempt = lambda: alg.multivector(values=[F(1)] * len(gk), keys=tuple(gk[::-1]))
    if not applicable:
        return Info(False, labels + ["invalid:not-applicable"], None)
    if case["graded"] and bad in ("length", "length-short") and keys != list(ref.keys_of_grades({pc(k) for k in keys})):
        return Info(False, labels + ["invalid:not-applicable"], None)
    try:
        r = attempt()
    except Exception as e:
        return Info(True, labels + [f"invalid:{bad}"], [case["cfg"], bad, g, case["keys"], case["graded"]], {"raised:" + type(e).__name__: 1})
    raise Violation("invalid-input-raises", bad, f"inconsistent input ({bad}; d={d}, grade {g}, keys {keys}, graded={case['graded']}) "
                    f"produced the multivector {kd.show(kd.to_dict(r))} with keys {list(r.keys())} instead of raising")


FINDING_PREDICATES = {}

MANIFEST_META = {
    "technique": "round-trip property-based testing (Hypothesis): construct from a generated truth map through every construction "
                 "form, read back through every accessor, compare with the truth map; invalid inputs by construction must raise",
    "level_text": "A truth map {blade: coefficient} is drawn first; the multivector is then built through one of 14 construction forms "
                  "(incl. keyword blades with arbitrary even/odd permuted spellings, custom bases, graded algebras) and every accessor "
                  "(attribute access with any spelling, items, containment, grade, asfullmv, map, filter) must reflect exactly the "
                  "supplied coefficients; deliberately inconsistent inputs must raise."
                  " Inconsistent by-name constructions (name= + keys= + grades= / convenience constructors) must raise too; reads must not change array-valued or inf coefficients."
                  " map / filter with classes and builtins (Fraction, float, complex, abs, bool); grade selection of the argument of a registered function.",
    "level_note": "Trusted: kv.refalg for spelling parity and canonical order. d<=4; spellings of grade<=4 blades.",
}
