"""C06 -- sandwich, projection and squared norm equal their defining compositions."""
from __future__ import annotations
import os
from itertools import combinations, permutations, product

from hypothesis import strategies as st

from ..core import Violation, Info, frac
from ..refalg import RefAlgebra
from ..refops import R, pc, clean
from ..ring import Q
from .. import strategies as S
from .. import kd

ID = "C06"
OPS = ["sw", "proj", "normsq"]
RULE = ("case = (algebra config d<=5 incl. custom bases, operator in {sw, proj, normsq}, ordered key tuples (grade blocks, "
        "sparse, permuted, padded; size caps d=4: 8 blades, d=5: 6), generic (indeterminate) or Fraction coefficients, cse "
        "flag, codegen symbol class built-in/sympy). Non-trivial = the symbolic pre-simplification actually removed a "
        "blade (some blade reachable by the naive blade-level product is absent from kingdon's result) OR some output "
        "coefficient is a polynomial with >= 3 monomials. distinct = hash(config, op, keysA, keysB, cse, symcls, mode).")
ASSUMPTIONS = [
    "oracle 1 (the property's literal statement): a*b*~a, (a|b)*~b, a*~a evaluated with kingdon's elementary operators on the "
    "same operands; oracle 2: the same compositions in kv.refops on the independent sign table",
    "with generic coefficients (kv.ring.Q) a blade missing from the result must have an identically-zero reference "
    "polynomial, which decides 'may remove a blade only if identically zero' exactly for that pattern",
    "size caps are cost limits (symbolic generation time), stated in RULE",
]
EXHAUSTIVE_SUBSPACES = {
    "quick": ["3 operators x all ordered key-tuple pairs x all signatures, d<=1"],
    "thorough": ["3 operators x all ordered key-tuple pairs x all signatures, d<=2 (cse alternating)"],
}
REQUIRED_LABELS = {"order:noncanonical": 0.05, "mode:generic": 0.2, "filter-fired": 0.03}


def budget(tier):
    n = int(os.environ.get("KV_EXAMPLES", 0)) or (9000 if tier == "quick" else 60000)
    return {"examples": n, "shards": 8 if tier == "quick" else 16, "wall": 90 if tier == "quick" else 900}


@st.composite
def _cases(draw, dmax):
    cfg = draw(S.configs(0, dmax, custom=0.2, named=dmax >= 4, dweights=[0, 1, 2, 2, 3, 3, 3, 4, 4, 4, 4] + [5, 5] * (dmax >= 5)))
    d = len(cfg["sig"])
    cap = {0: None, 1: None, 2: None, 3: 8, 4: 6, 5: 5}[d]
    op = draw(st.sampled_from(OPS))
    classes = ["single", "sparse", "sparse", "gradeblock"] + ["puregrade"] * 5 + ["perm", "perm", "empty", "fullcanon"]
    a = draw(S.operand(d, classes=classes, max_len=cap))
    b = draw(S.operand(d, classes=classes, max_len=cap)) if op != "normsq" else None
    return {"cfg": cfg, "op": op, "a": a, "b": b, "mode": draw(st.sampled_from(["generic", "generic", "frac", "typed"])),
            "cse": draw(st.booleans()), "symcls": draw(st.sampled_from([None, None, None, "sympy", "poly", "ratpoly"])),
            "wrapper": draw(st.integers(0, 4)) == 0}


def cases(tier):
    return _cases(4 if tier == "quick" else 5)


def _all_key_tuples(d):
    n = 2 ** d
    return [list(p) for r in range(n + 1) for comb in combinations(range(n), r) for p in permutations(comb)]


def enumerate_cases(tier):
    yield from _structural()
    dmax = 1 if tier == "quick" else 2
    i = 0
    for d in range(dmax + 1):
        tuples = _all_key_tuples(d)
        for sig in product([1, -1, 0], repeat=d):
            for ka in tuples:
                i += 1
                yield {"cfg": {"sig": list(sig), "start": None, "basis": None}, "op": "normsq",
                       "a": {"cls": "enum", "keys": ka, "vals": None}, "b": None, "mode": "generic", "cse": i % 2 == 0, "symcls": None}
                for kb in tuples:
                    for op in ("sw", "proj"):
                        i += 1
                        yield {"cfg": {"sig": list(sig), "start": None, "basis": None}, "op": op,
                               "a": {"cls": "enum", "keys": ka, "vals": None}, "b": {"cls": "enum", "keys": kb, "vals": None},
                               "mode": "generic", "cse": i % 2 == 0, "symcls": None}


def _structural():
    """Fixed cases every run: (a) d=5 operands holding a blade together with its complement / complementary grade blocks (the
    only place where a*~a has a grade-5 part), (b) d=4 operands large enough for any 'big operand' path (12-16 blades) in
    canonical, bitmask and reversed key order, with and without cse."""
    def opnd(keys):
        return {"cls": "enum", "keys": list(keys), "vals": None}
    i = 0
    for sig in ([1, 1, 1, 1, 1], [1, 1, 1, -1, 0], [-1, 1, -1, 1, 1]):
        cfg = {"sig": sig, "start": None, "basis": None}
        blocks = [[I, 31 ^ I] for I in range(16)] + [[31 ^ I, I] for I in (1, 3, 7)]
        blocks += [[k for k in range(32) if bin(k).count("1") in g] for g in ((1, 4), (2, 3), (0, 5))]
        for ka in blocks:
            i += 1
            yield {"cfg": cfg, "op": "normsq", "a": opnd(ka), "b": None, "mode": "generic", "cse": i % 2 == 0, "symcls": None}
            if len(ka) == 2:
                for kb in ([2], [4, 24], [31 ^ ka[0], ka[0]]):
                    for op in ("sw", "proj"):
                        i += 1
                        yield {"cfg": cfg, "op": op, "a": opnd(ka), "b": opnd(kb), "mode": "generic", "cse": i % 2 == 0, "symcls": None}
    # more than 16 / 32 output coefficients with shared sub-expressions (d = 5: 20 outputs; d = 6: 35 outputs)
    g23_5 = [k for k in range(32) if bin(k).count("1") in (2, 3)]
    g23_6 = [k for k in range(64) if bin(k).count("1") in (2, 3)]
    for sig5 in ([1, 1, 1, 1, 1], [1, 1, 1, -1, 0]):
        cfg = {"sig": sig5, "start": None, "basis": None}
        for ka, kb, op in (([1, 2, 4, 8, 16], g23_5, "sw"), ([0, 3, 5, 6, 24], g23_5, "sw"), ([1, 2, 4, 8, 16], [1, 2, 4, 8, 16] + g23_5[:10], "proj")):
            yield {"cfg": cfg, "op": op, "a": opnd(ka), "b": opnd(kb), "mode": "generic", "cse": True, "symcls": None}
    cfg6 = {"sig": [1, 1, 1, 1, 1, -1], "start": None, "basis": None}
    yield {"cfg": cfg6, "op": "sw", "a": opnd([1, 2, 4, 8, 16, 32]), "b": opnd(g23_6), "mode": "generic", "cse": True, "symcls": None}
    yield {"cfg": cfg6, "op": "sw", "a": opnd([3, 12]), "b": opnd(g23_6[::-1]), "mode": "generic", "cse": True, "symcls": None}
    # homogeneous but non-simple operands (a*~a has a grade-4 part) in every array-valued / ndarray-backed representation
    for sig4 in ([1, 1, 1, 1], [1, 1, -1, -1]):
        for keys in ([3, 12], [12, 3, 5, 10], [6, 9, 3]):
            for t_ in ("nd2-float", "nd2-int", "nd-float", "listarr-float", "np.float64", "complex"):
                tv = {"t": t_, "v": [2, 3, -1, 4][:len(keys)], "im": [1, -2, 3, 1][:len(keys)] if "complex" in t_ else None, "w": 2, "sp": None}
                o = {"cls": "enum", "keys": list(keys), "vals": ["2", "3", "-1", "4"][:len(keys)], "tvals": tv}
                yield {"cfg": {"sig": sig4, "start": None, "basis": None}, "op": "normsq", "a": o, "b": None, "mode": "typed", "cse": True, "symcls": None}
    canon16 = sorted(range(16), key=lambda k: (bin(k).count("1"), [j for j in range(4) if k >> j & 1]))
    for sig in ([1, 1, 1, -1], [0, 1, 1, 1]):
        cfg = {"sig": sig, "start": None, "basis": None}
        for ka in (canon16, list(range(16)), canon16[::-1], [3, 5, 6, 9, 10, 12, 0, 15, 1, 2, 4, 8]):
            for kb in ([1, 2, 4, 8], [8, 4, 2, 1], [3, 5, 9, 6, 10, 12]):
                for cse in (False, True):
                    for op in ("sw", "proj"):
                        a_, b_ = (ka, kb) if op == "sw" else (kb, ka[:8])
                        yield {"cfg": cfg, "op": op, "a": opnd(a_), "b": opnd(b_), "mode": "generic", "cse": cse, "symcls": None}


def _values(opnd, mode, prefix):
    if mode == "generic" or opnd.get("vals") is None:
        return [Q.var(f"{prefix}{k}") for k in opnd["keys"]]
    if mode == "typed" and opnd.get("tvals"):
        from .. import values as V
        return V.decode(opnd["tvals"])
    return [frac(v) for v in opnd["vals"]]


def _call(fn, clause, op, what=""):
    try:
        return fn()
    except Violation:
        raise
    except Exception as e:
        raise Violation(clause, op, f"{what} raised {type(e).__name__}: {e}", exc=type(e).__name__)


def _support(ref, *keysets):
    """Blades reachable by the naive blade-level product (no cancellation between terms)."""
    cur = {0}
    for ks in keysets:
        nxt = set()
        for i in cur:
            for j in ks:
                if ref.T(i, j):
                    nxt.add(i ^ j)
        cur = nxt
    return cur


def evaluate(case):
    cfg, op = case["cfg"], case["op"]
    ref = RefAlgebra(cfg)
    Rr = R(ref.d, ref.T)
    opts = {"cse": case["cse"]}
    if case.get("symcls"):
        opts["symcls"] = case["symcls"]
    if case.get("wrapper"):
        opts["wrapper"] = True
    alg = kd.build_algebra(cfg, **opts)
    ka = case["a"]["keys"]
    va = _values(case["a"], case["mode"], "a")
    x = kd.mk(alg, ka, va)
    da = dict(zip(ka, va))
    if op == "normsq":
        res = _call(lambda: x.normsq(), "composition", op, "a.normsq()")
        lit = _call(lambda: x * ~x, "composition", "gp", "a*~a")
        exp = Rr.normsq(da)
        support = _support(ref, ka, ka)
        kb = None
    else:
        kb = case["b"]["keys"]
        vb = _values(case["b"], case["mode"], "b")
        y = kd.mk(alg, kb, vb)
        db = dict(zip(kb, vb))
        if op == "sw":
            res = _call(lambda: x >> y, "composition", op, "a >> b")
            lit = _call(lambda: x * y * ~x, "composition", "gp", "a*b*~a")
            exp = Rr.sw(da, db)
            support = _support(ref, ka, kb, ka)
        else:
            res = _call(lambda: x @ y, "composition", op, "a @ b")
            lit = _call(lambda: (x | y) * ~y, "composition", "gp", "(a|b)*~b")
            exp = Rr.proj(da, db)
            support = _support(ref, ka, kb, kb)
    got = kd.to_dict(res, op=op)
    litd = kd.to_dict(lit, op="gp")
    ok, why = kd.elem_equal(got, litd)
    if not ok:
        raise Violation("composition", op, f"{op} differs from the composition of kingdon's elementary operators: {why}",
                        observed=kd.show(got), composition=kd.show(litd))
    ok, why = kd.elem_equal(got, exp)
    if not ok:
        raise Violation("composition-vs-reference", op, f"{op} differs from the reference composition: {why}",
                        observed=kd.show(got), expected=kd.show(exp))
    # the same elements stored in another key order on the same algebra, then the original order again
    if len(ka) > 1 or (kb is not None and len(kb) > 1):
        x2 = kd.mk(alg, ka[::-1], va[::-1])
        for what, xx in (("re-ordered first operand", x2), ("original order after the re-ordered call", x)):
            if op == "normsq":
                r2 = _call(lambda: xx.normsq(), "composition", op, what)
            elif op == "sw":
                r2 = _call(lambda: xx >> y, "composition", op, what)
            else:
                r2 = _call(lambda: xx @ y, "composition", op, what)
            ok, why = kd.elem_equal(kd.to_dict(r2, op=op), exp)
            if not ok:
                raise Violation("composition-vs-reference", op, f"{what} (keys {list(xx.keys())}, wrapper={bool(case.get('wrapper'))}): {why}",
                                observed=kd.show(kd.to_dict(r2)), expected=kd.show(exp))
    counters = {}
    if case["mode"] == "frac" and ref.d <= 2 and len(ka) <= 3 and (kb is None or len(kb) <= 3) and not case.get("wrapper") \
            and case.get("symcls") != "poly":          # Polynomial symbols have no division: a.inv() is outside that option's domain
        # the operator applied to a RATIONAL-function operand while a symbolically registered function is generated:
        # alg.register(symbolic=True)(lambda a, b: a.inv() >> b) on (a, b) must be inv(a) >> b
        try:
            dinv = Rr.inv(da)
        except ZeroDivisionError:
            dinv = None
        if dinv is not None:
            if op == "normsq":
                def f(a):
                    return a.inv().normsq()
                args, exp2 = (x,), Rr.normsq(dinv)
            elif op == "sw":
                def f(a, b):
                    return a.inv() >> b
                args, exp2 = (x, y), Rr.sw(dinv, db)
            else:
                def f(a, b):
                    return a.inv() @ b
                args, exp2 = (x, y), Rr.proj(dinv, db)
            r3 = _call(lambda: alg.register(f, symbolic=True)(*args), "composition", op, f"{op} on a.inv() inside alg.register(symbolic=True)")
            ok, why = kd.elem_equal(kd.to_dict(r3, op=op), exp2)
            if not ok:
                raise Violation("composition-vs-reference", op, f"{op} applied to a.inv() inside a function registered with symbolic=True "
                                f"(keys {ka}" + (f" x {kb}" if kb is not None else "") + f"): {why}",
                                observed=kd.show(kd.to_dict(r3)), expected=kd.show(exp2))
            counters["checked:registered-symbolic-rational-operand"] = 1
    fired = bool(support - set(got))
    big = case["mode"] == "generic" and any(isinstance(v, Q) and v.nterms() >= 3 for v in exp.values())
    noncanon = (not S.is_canonical(ka)) or (kb is not None and not S.is_canonical(kb))
    labels = [f"op:{op}", f"d:{ref.d}", f"mode:{case['mode']}", f"cse:{case['cse']}", f"symcls:{case.get('symcls')}",
              "order:noncanonical" if noncanon else "order:canonical", "basis:custom" if cfg.get("basis") else "basis:default"]
    if case.get("wrapper"):
        labels.append("opt:wrapper")
    if fired:
        labels.append("filter-fired")
    key = [cfg["sig"], cfg.get("start"), cfg.get("basis"), op, ka, kb, case["cse"], case.get("symcls"), case["mode"], bool(case.get("wrapper"))]
    return Info(fired or big, labels, key, counters, sample={"result_keys": sorted(got), "dropped": sorted(support - set(got))} if fired else None)


FINDING_PREDICATES = {}

MANIFEST_META = {
    "technique": "property-based differential testing (Hypothesis + enumeration): composite operators vs the composition of "
                 "kingdon's own elementary operators and vs an independent reference, generic-ring coefficients",
    "level_text": "Each generated (config, operator, key pattern, cse, symbol class) makes kingdon symbolically pre-simplify and "
                  "compile sw / proj / normsq; the function is run on indeterminate coefficients and compared with a*b*~a, "
                  "(a|b)*~b, a*~a from the elementary operators and from the reference model, so a blade dropped by the "
                  "zero filter is accepted only when its reference polynomial is identically zero."
                  " Also: the operators applied to a.inv() inside register(symbolic=True) (rational-function operands), 264 structural cases every run (d=5 blade+complement, 12-16 blade operands in three key orders with and without cse), typed coefficient representations."
                  " Fixed d=5 / d=6 cases with 20 / 35 output coefficients; symbol classes Polynomial / RationalPolynomial given explicitly.",
    "level_note": "Trusted: kv.refalg/kv.refops, kv.ring.Q. Pattern sizes capped for cost (d=4: 6 blades, d=5: 4); sampling for d>=2 "
                  "(quick) / d>=3 (thorough).",
}
