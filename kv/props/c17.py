"""C17 -- the built-in polynomial arithmetic is exact rational-function arithmetic."""
from __future__ import annotations
import copy
import os
from fractions import Fraction as F

from hypothesis import strategies as st

from ..core import Violation, Info, HarnessError
from ..ring import Q, _pmul, _padd
from .. import kd

ID = "C17"
VARS = ["a", "a1", "a12", "a2", "b", "b1", "b12", "b2", "c", "ab", "E", "I"]     # E, I: scalar coefficients of multivectors named E / I
RULE = ("case = an expression tree (<= 14 nodes) over kingdon's RationalPolynomial (or, in 'poly' mode, Polynomial) objects built "
        "only through what code generation uses: fromname / list constructors, + - * /, unary -, **n (n >= 1; negative for "
        "RationalPolynomial), augmented assignment (+=, -=, *=) on an accumulator, inv(), ints and dyadic floats on either side, division by ints; variable names as code "
        "generation makes them (a, a1, a12, b2, ... prefix-related on purpose); zero sub-results generated on purpose (x-x, "
        "0*x, k*x - x*k). Every node of the tree is evaluated in kingdon and in an independent exact rational-function ring. "
        "Non-trivial = >= 3 operations AND >= 2 variables AND (some node is identically zero OR some node has a "
        "non-constant denominator). distinct = hash(tree).")
ASSUMPTIONS = [
    "reference: kv.ring.Q (dict polynomials over Fractions, zero test = empty numerator); floats are lifted exactly, so trees "
    "that only use ints, dyadic floats and division by powers of two are compared exactly ('exact' trees); a division by any "
    "other int makes kingdon produce 1/n as a float: those trees are compared at 1e-9 and their zero tests are not asserted",
    "checked per node: value at 3 fixed rational points away from poles, via direct evaluation of numer/denom AND via "
    "tosympy(); bool(k) and k == 0 <=> reference is the zero function; k1 == k2 (all node pairs) => reference functions "
    "equal; monomials strictly increasing, no zero coefficients, variables sorted inside a monomial; operands not mutated",
    "division by an identically-zero node is outside the domain (the reference raises) and such trees are discarded and counted",
    "cost cap: trees whose expanded result could exceed degree 24 or 4000 terms are skipped and counted (skipped:too-large)",
]
REQUIRED_LABELS = {"has-zero-node": 0.1, "has-denominator": 0.1, "mode:poly": 0.1}


def budget(tier):
    n = int(os.environ.get("KV_EXAMPLES", 0)) or (24000 if tier == "quick" else 400000)
    return {"examples": n, "shards": 16, "wall": 90 if tier == "quick" else 900, "fuzz_runs": 40000 if tier == "thorough" else 0}


def _tree(depth, poly):
    lin = st.tuples(st.lists(st.sampled_from(VARS), min_size=2, max_size=3, unique=True), st.sampled_from([0, 1, -2, 3])).map(
        lambda t: ["lin", sorted(t[0]), t[1]])     # a multi-term polynomial leaf (a + b12 + 1): multi-term denominators
    leaf = st.one_of(st.sampled_from(VARS).map(lambda v: ["var", v]), st.sampled_from(VARS[:4]).map(lambda v: ["var", v]), lin,
                     st.sampled_from([0, 1, 2, 3, -1, -2, 5]).map(lambda n: ["int", n]),
                     st.sampled_from([0.5, -0.25, 2.0, 1.5]).map(lambda x: ["float", x]))

    def ext(children):
        ops = [st.tuples(st.just("add"), children, children), st.tuples(st.just("sub"), children, children),
               st.tuples(st.just("mul"), children, children), st.tuples(st.just("mul"), children, children),
               st.tuples(st.just("neg"), children), st.tuples(st.just("pow"), children, st.sampled_from([1, 2, 2, 3, 4] + ([] if poly else [-1, -2]))),
               st.tuples(st.just("divint"), children, st.sampled_from([2, 4, 3, -2, 5])),
               st.tuples(st.just("zero"), children, st.sampled_from(["x-x", "0*x", "x*0", "kx-xk"])),
               st.tuples(st.just("aug"), children, children, st.sampled_from(["+=", "-=", "*=", "+=", "x*1;+=", "0+x;+="]))]
        if not poly:
            ops += [st.tuples(st.just("div"), children, children), st.tuples(st.just("inv"), children)]
        return st.one_of(*ops).map(list)
    return st.recursive(leaf, ext, max_leaves=8)


@st.composite
def _cases(draw):
    poly = draw(st.integers(0, 5)) == 0
    t = draw(_tree(4, poly))
    if t[0] in ("int", "float"):
        t = ["mul", ["var", draw(st.sampled_from(VARS))], t]
    # "tiny": every numeric constant of the tree is scaled by 2**-42 (still exact binary floats, and sums only ever combine
    # coefficients of similar magnitude, so arithmetic stays exact): non-zero coefficients of size ~1e-13 .. 1e-26 must survive
    return {"mode": "poly" if poly else "rational", "tree": t, "final_div": draw(st.booleans()) and poly,
            "tiny": False}


def cases(tier):
    return _cases()


def enumerate_cases(tier):
    """Fixed trees with coefficients of magnitude 2**-42 .. 2**-84 (exact binary floats; every sum combines coefficients of equal
    magnitude, so float arithmetic is exact): a non-zero coefficient must survive however small it is."""
    t, u = 2.0 ** -42, -(2.0 ** -43)
    X, Y, Z = ["var", "a"], ["var", "b1"], ["var", "a12"]
    tx, ty, ux = ["mul", ["float", t], X], ["mul", ["float", t], Y], ["mul", ["float", u], X]
    trees = [
        ["add", tx, tx], ["add", tx, ty], ["add", tx, ux], ["sub", tx, ["mul", ["float", t], X]],
        ["pow", ["add", tx, ty], 2], ["mul", ["add", tx, ty], ["add", tx, ty]], ["mul", ["add", tx, ty], ["sub", tx, ty]],
        ["aug", tx, tx, "+="], ["aug", tx, ty, "+="], ["aug", ["add", tx, ty], tx, "-="],
        ["add", ["mul", tx, Y], ["mul", ty, X]], ["sub", ["mul", tx, Y], ["mul", ty, X]],
        ["mul", ["add", tx, ["mul", ["float", t], Z]], Y], ["neg", ["add", ux, ux]],
        ["pow", tx, 2], ["pow", ["add", tx, tx], 2], ["zero", tx, "kx-xk"], ["zero", ["add", tx, ty], "x-x"],
    ]
    for mode in ("rational", "poly"):
        for tr in trees:
            yield {"mode": mode, "tree": tr, "final_div": False, "tiny": False}
    # every exponent 5..20 (powers are built along addition chains; code generation uses x**7 for the iterative inverse):
    # a monomial, a binomial, a trinomial for the small ones, and negative powers of a fraction
    A, B = ["var", "a"], ["lin", ["a", "b1"], 1]
    for n_ in range(5, 21):
        for mode in ("rational", "poly"):
            yield {"mode": mode, "tree": ["pow", A, n_], "final_div": False, "tiny": False, "nocap": True}
            if n_ <= 14:
                yield {"mode": mode, "tree": ["pow", B, n_], "final_div": False, "tiny": False, "nocap": True}
            if n_ <= 8:
                yield {"mode": mode, "tree": ["pow", ["lin", ["a", "a12", "b"], 0], n_], "final_div": False, "tiny": False, "nocap": True}
        if n_ <= 14:
            yield {"mode": "rational", "tree": ["pow", ["div", A, ["lin", ["a", "b"], 0]], -n_], "final_div": False, "tiny": False, "nocap": True}


# ---------------------------------------------------------------------------------------------------------------------
def _kclasses():
    from kingdon.polynomial import Polynomial, RationalPolynomial
    return Polynomial, RationalPolynomial


class Discard(Exception):
    pass


TINY = 2.0 ** -42


def _eval(tree, mode, nodes, tiny=False):
    """Evaluate the tree in kingdon and in the reference ring.  Appends (tree, kingdon value, Q value, exact) per node."""
    Polynomial, RationalPolynomial = _kclasses()
    cls = Polynomial if mode == "poly" else RationalPolynomial
    k = tree[0]
    if k == "var":
        res = (cls.fromname(tree[1]), Q.var(tree[1]), True)
    elif k in ("int", "float"):
        c = tree[1] * TINY if tiny else tree[1]
        res = (c, Q.lift(c), True)
    elif k == "lin":
        kv = tree[2] * TINY if tiny else tree[2]
        qv = Q.lift(kv)
        for v in tree[1]:
            kv = cls.fromname(v) + kv
            qv = Q.var(v) + qv
        res = (kv, qv, True)
    else:
        subs = [_eval(c, mode, nodes, tiny) for c in tree[1:] if isinstance(c, list)]
        exact = all(s[2] for s in subs)
        snap = [copy.deepcopy(s[0]) for s in subs]

        def kk(fn):
            try:
                return fn()
            except ZeroDivisionError:
                raise
            except Exception as e:
                raise Violation("operation-denotes-operation", k, f"{k} on {[_show(s[0]) for s in subs]} raised {type(e).__name__}: {e}",
                                exc=type(e).__name__)
        a = subs[0]
        if k in ("add", "sub", "mul", "div"):
            b = subs[1]
            if k == "div":
                if b[1].iszero():
                    raise Discard("division by zero function")
                if not isinstance(b[0], (Polynomial, RationalPolynomial)) and not isinstance(a[0], (Polynomial, RationalPolynomial)):
                    if b[0] == 0:
                        raise Discard("number / 0")
                    if not _dyadic(b[0]):
                        exact = False
                if not isinstance(b[0], (Polynomial, RationalPolynomial)) and not _dyadic(b[0]):
                    exact = False     # poly / number -> float reciprocal
            import operator
            fn = {"add": operator.add, "sub": operator.sub, "mul": operator.mul, "div": operator.truediv}[k]
            try:
                kv = kk(lambda: fn(a[0], b[0]))
            except ZeroDivisionError:
                raise Discard("python division by zero")
            qv = fn(a[1], b[1])
        elif k == "neg":
            kv, qv = kk(lambda: -a[0]), -a[1]
        elif k == "pow":
            n = tree[2]
            if n < 0 and a[1].iszero():
                raise Discard("negative power of zero")
            try:
                kv = kk(lambda: a[0] ** n)
            except ZeroDivisionError:
                raise Discard("python zero division")
            qv = a[1] ** n
            if n < 0 and not isinstance(a[0], (Polynomial, RationalPolynomial)) and not _dyadic(a[0]):
                exact = False
        elif k == "inv":
            if a[1].iszero():
                raise Discard("inverse of zero")
            if not isinstance(a[0], (Polynomial, RationalPolynomial)):
                kv, qv = kk(lambda: 1 / a[0]), 1 / a[1]
                exact = exact and _dyadic(a[0])
            else:
                kv, qv = kk(lambda: a[0].inv()), 1 / a[1]
        elif k == "divint":
            n = tree[2]
            kv, qv = kk(lambda: a[0] / n), a[1] / n
            if n not in (2, 4, -2) or not isinstance(a[0], (Polynomial, RationalPolynomial)):
                exact = exact and (n in (2, 4, -2))
        elif k == "aug":
            # augmented assignment on an accumulator (acc = a; acc += b): must denote a (+,-,*) b and leave a itself alone
            b = subs[1]
            how = tree[3]
            import operator
            acc = a[0]
            if how.startswith("x*1"):
                acc = kk(lambda: a[0] * 1)
            elif how.startswith("0+x"):
                acc = kk(lambda: 0 + a[0])
            opn = how.split(";")[-1]
            fn2 = {"+=": operator.iadd, "-=": operator.isub, "*=": operator.imul}[opn]
            fq = {"+=": operator.add, "-=": operator.sub, "*=": operator.mul}[opn]
            kv = kk(lambda: fn2(acc, b[0]))
            qv = fq(a[1], b[1])
        elif k == "zero":
            how = tree[2]
            if how == "x-x":
                kv, qv = kk(lambda: a[0] - a[0]), a[1] - a[1]
            elif how == "0*x":
                kv, qv = kk(lambda: 0 * a[0]), 0 * a[1]
            elif how == "x*0":
                kv, qv = kk(lambda: a[0] * 0), a[1] * 0
            else:
                v = cls.fromname("b2")
                kv = kk(lambda: v * a[0] - a[0] * v)
                qv = Q.var("b2") * a[1] - a[1] * Q.var("b2")
        else:
            raise HarnessError(f"unknown node {k}")
        for s, before in zip(subs, snap):
            if isinstance(s[0], (Polynomial, RationalPolynomial)) and _struct(s[0]) != _struct(before):
                raise Violation("operands-not-mutated", k, f"{k} changed its operand from {_show(before)} to {_show(s[0])}")
        res = (kv, qv, exact)
    nodes.append((tree, res[0], res[1], res[2]))
    return res


def _dyadic(x):
    f = F(x)
    return f.denominator & (f.denominator - 1) == 0 and (f.numerator == 0 or abs(f.numerator) & (abs(f.numerator) - 1) == 0)


def _struct(k):
    Polynomial, RationalPolynomial = _kclasses()
    if isinstance(k, RationalPolynomial):
        return (_struct(k.numer), _struct(k.denom))
    if isinstance(k, Polynomial):
        return [list(m) for m in k.args]
    return k


def _show(k):
    return repr(_struct(k))[:200]


POINTS = [{v: F(p + 2 * i, q) for i, v in enumerate(VARS)} for p, q in ((3, 2), (-5, 3), (7, 5))]


def _poly_at(args, pt):
    tot = F(0)
    for mono in args:
        c = mono[0]
        term = F(c) if not isinstance(c, F) else c
        for v in mono[1:]:
            if isinstance(v, str):
                term *= pt[v]
            else:
                term *= F(v)
        tot += term
    return tot


def _k_at(k, pt):
    """(numerator value, denominator value) of a kingdon object at a rational point, from its raw structure."""
    Polynomial, RationalPolynomial = _kclasses()
    if isinstance(k, RationalPolynomial):
        return _poly_at(k.numer.args, pt), _poly_at(k.denom.args, pt)
    if isinstance(k, Polynomial):
        return _poly_at(k.args, pt), F(1)
    return F(k), F(1)


def _q_at(q, pt):
    def ev(p):
        tot = F(0)
        for mono, c in p.items():
            t = c
            for v in mono:
                t *= pt[v]
            tot += t
        return tot
    return ev(q.n), ev(q.d)


def _check_structure(k, where):
    Polynomial, RationalPolynomial = _kclasses()
    from kingdon.polynomial import compare
    polys = []
    if isinstance(k, RationalPolynomial):
        for part, p in (("numer", k.numer), ("denom", k.denom)):
            if not isinstance(p, Polynomial):
                raise Violation("well-formed", "structure", f"{where}: RationalPolynomial.{part} is a {type(p).__name__} ({p!r}), not a Polynomial")
            polys.append((part, p))
    elif isinstance(k, Polynomial):
        polys.append(("poly", k))
    for part, p in polys:
        args = p.args
        if not isinstance(args, (list, tuple)):
            raise Violation("well-formed", "structure", f"{where}: {part}.args is {type(args).__name__}")
        for i, m in enumerate(args):
            if not isinstance(m, (list, tuple)) or not m:
                raise Violation("well-formed", "structure", f"{where}: monomial {m!r} in {part}")
            if any(not isinstance(v, str) for v in m[1:]):
                raise Violation("well-formed", "structure", f"{where}: non-variable factor inside monomial {m!r}")
            if list(m[1:]) != sorted(m[1:]):
                raise Violation("monomial-order", "structure", f"{where}: variables of monomial {m!r} in {part} are not sorted")
            if m[0] == 0 and len(args) > 1:
                raise Violation("monomial-order", "structure", f"{where}: zero coefficient stored in {part}: {args!r}")
            if i and compare(args[i - 1], m) >= 0:
                raise Violation("monomial-order", "structure", f"{where}: monomials of {part} not strictly increasing: {args[i - 1]!r} then {m!r} "
                                f"(the merge-based addition relies on this order)")


def _size_bound(tree):
    """(degree bound, term bound) of the expanded polynomial a tree denotes -- a cost estimate only."""
    k = tree[0]
    if k in ("var",):
        return 1, 1
    if k in ("int", "float"):
        return 0, 1
    if k == "lin":
        return 1, len(tree[1]) + 1
    subs = [_size_bound(t) for t in tree[1:] if isinstance(t, list) and t and isinstance(t[0], str)]
    if not subs:
        return 1, 1
    if k == "pow":
        dg, tm = subs[0]
        n = abs(tree[2])
        return dg * n, tm ** n
    if k in ("mul", "div", "imul"):
        return sum(d_ for d_, _ in subs), max(1, __import__("math").prod(t_ for _, t_ in subs))
    return max(d_ for d_, _ in subs), sum(t_ for _, t_ in subs)


def evaluate(case):
    Polynomial, RationalPolynomial = _kclasses()
    nodes = []
    dg, tm = _size_bound(case["tree"])
    if (dg > 24 or tm > 4000) and not case.get("nocap"):
        # cost cap (stated in evidence): e.g. ((I+a+a1)**4)**4)**4 has 2145 terms of degree 64 and takes nine minutes
        return Info(False, ["skipped:too-large"], None, {"skipped:too-large": 1})
    try:
        root = _eval(case["tree"], case["mode"], nodes, bool(case.get("tiny")))
        if case.get("final_div") and isinstance(root[0], Polynomial):
            # Polynomial / Polynomial -> RationalPolynomial
            den = Polynomial.fromname("c") + 1
            if not root[1].iszero():
                nodes.append((["polydiv"], den / root[0], (Q.var("c") + 1) / root[1], root[2]))
    except Discard as dsc:
        return Info(False, ["discarded"], None, {"discarded:" + str(dsc): 1})
    import sympy
    nops = sum(1 for n in nodes if n[0][0] not in ("var", "int", "float"))
    variables = {n[0][1] for n in nodes if n[0][0] == "var"} | {v for n in nodes if n[0][0] == "lin" for v in n[0][1]}
    has_zero = False
    has_den = False
    objs = []
    for tree, kv, qv, exact in nodes:
        if not isinstance(kv, (Polynomial, RationalPolynomial)):
            continue
        where = f"node {tree[0]}"
        _check_structure(kv, where)
        zero = qv.iszero()
        has_zero = has_zero or zero
        if isinstance(kv, RationalPolynomial) and any(len(m) > 1 for m in kv.denom.args):
            has_den = True
        if exact:
            try:
                b, e0 = bool(kv), (kv == 0)
            except Exception as e:
                raise Violation("zero-test-exact", "bool", f"{where}: bool()/==0 raised {type(e).__name__}: {e} on {_show(kv)}", exc=type(e).__name__)
            if b == zero or bool(e0) != zero:
                raise Violation("zero-test-exact", "bool", f"{where}: object {_show(kv)} denotes {'the zero function' if zero else 'a non-zero function'} "
                                f"({qv!r}) but bool() = {b}, (== 0) = {e0}")
        for pt in POINTS:
            qn, qd = _q_at(qv, pt)
            if qd == 0:
                continue
            kn, kdn = _k_at(kv, pt)
            if kdn == 0:
                if exact:
                    raise Violation("denotes-same-function", tree[0], f"{where}: denominator of {_show(kv)} vanishes at a point where the function is regular")
                continue
            gv, ev = kn / kdn, qn / qd
            ok = gv == ev if exact else abs(float(gv) - float(ev)) <= 1e-9 * max(1.0, abs(float(ev)))
            if not ok:
                raise Violation("denotes-same-function", tree[0], f"{where}: {_show(kv)} evaluates to {gv} at {dict(list(pt.items())[:4])}..., the "
                                f"{tree[0]} of the operands' functions is {ev}", tree=tree)
            if pt is not POINTS[0]:
                continue       # tosympy is compared at the first point only (sympy subs dominates the cost)
            try:
                se = kv.tosympy()
                sv = sympy.sympify(se).subs({sympy.Symbol(v): sympy.Rational(x.numerator, x.denominator) for v, x in pt.items()})
            except ZeroDivisionError:
                continue
            except Exception as e:
                raise Violation("tosympy-preserves", "tosympy", f"{where}: tosympy()/subs raised {type(e).__name__}: {e} for {_show(kv)}", exc=type(e).__name__)
            if sv in (sympy.zoo, sympy.nan) or sv.has(sympy.zoo, sympy.nan):
                continue
            if exact and sv.is_Rational:
                ok2 = F(int(sv.p), int(sv.q)) == ev
            else:
                ok2 = abs(complex(sv) - complex(float(ev))) <= 1e-9 * max(1.0, abs(float(ev)))
            if not ok2:
                raise Violation("tosympy-preserves", "tosympy", f"{where}: tosympy() = {se} evaluates to {sv}, the function value is {ev}")
        objs.append((kv, qv, exact))
    # == is sound
    for i in range(len(objs)):
        for j in range(i + 1, len(objs)):
            (k1, q1, x1), (k2, q2, x2) = objs[i], objs[j]
            if not (x1 and x2):
                continue
            try:
                eq = bool(k1 == k2)
            except Exception as e:
                raise Violation("equality-sound", "eq", f"== raised {type(e).__name__}: {e}", exc=type(e).__name__)
            if eq and not (q1 == q2):
                raise Violation("equality-sound", "eq", f"{_show(k1)} == {_show(k2)} is True but they denote different functions {q1!r} / {q2!r}")
    labels = [f"mode:{case['mode']}"] + (["tiny-coefficients"] if case.get("tiny") else [])
    if has_zero:
        labels.append("has-zero-node")
    if has_den:
        labels.append("has-denominator")
    if all(n[3] for n in nodes):
        labels.append("exact-tree")
    nontrivial = nops >= 3 and len(variables) >= 2 and (has_zero or has_den)
    return Info(nontrivial, labels, case["tree"], {"nodes": len(nodes)})


FINDING_PREDICATES = {}

MANIFEST_META = {
    "technique": "property-based testing of operation sequences (Hypothesis recursive expression trees) against an independent exact "
                 "rational-function reference; thorough tier adds a coverage-guided atheris campaign over the same generator",
    "level_text": "Expression trees over RationalPolynomial / Polynomial built only through the constructors and operators code "
                  "generation uses are evaluated node by node in kingdon and in an independent exact ring: every node must denote "
                  "the same function (evaluated at rational points from the raw numerator/denominator and through tosympy), zero "
                  "tests and truthiness must be exact, == must be sound, and the monomial-order invariant the merge addition relies on "
                  "must hold; operands must not be mutated."
                  " Every exponent 5..20 is enumerated (addition chains).",
    "level_note": "Trusted: kv.ring.Q, sympy subs. Floats restricted to dyadic values so that comparisons stay exact; trees dividing by "
                  "other ints are compared at 1e-9 and their zero tests skipped.",
}
