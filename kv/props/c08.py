"""C08 -- results do not depend on how an operand is stored (key order, explicit zeros, dense layouts)."""
from __future__ import annotations
import os
from fractions import Fraction as F

from hypothesis import strategies as st

from ..core import Violation, Info, frac, fstr
from ..refalg import RefAlgebra
from ..refops import R, pc, clean
from .. import strategies as S
from .. import kd
from ..opsuite import RefUndefined, r_apply

ID = "C08"
EXACT_BIN = ["gp", "op", "ip", "lc", "rc", "sp", "cp", "acp", "add", "sub", "rp", "sw", "proj"]
EXACT_UN = ["neg", "reverse", "involute", "conjugate", "normsq", "hodge", "unhodge", "polarity", "unpolarity"]
INVOPS = ["inv", "div", "pow"]
SERIES = ["outerexp", "outersin", "outercos", "outertan"]
FLOATOPS = ["sqrt", "pow0.5", "exp", "norm", "normalized"]
ALL_OPS = EXACT_BIN + EXACT_UN + INVOPS + SERIES + FLOATOPS
RULE = ("case = (algebra config d<=4, operator from the 14 binary + 15 unary operators and the composites x**n, x**0.5, exp, "
        "norm, normalized; base operand(s) as sparse Fraction multivectors in the operator's stated domain; one storage "
        "variant per operand from {same, permutation, zero-padded superset, padded+permuted, full canonical layout, full "
        "binary layout}). On ONE algebra the operator is applied to the base operands, then to the variants, then to the base "
        "again; all three must be the same element (or all raise). Non-trivial = some variant differs from its base in key "
        "order or key set. distinct = hash(config, op, base keys, variant keys).")
ASSUMPTIONS = [
    "metamorphic oracle: only kingdon outputs are compared with each other (plus the reference value for the exact operators, "
    "to exclude a common-mode error)",
    "domains: sqrt / x**0.5 only on Study numbers a + b*E with stored scalar a >= 3 and |b| <= 3/2; exp on vectors and scaled "
    "blades (simple elements); outer series on operands whose base has no scalar part; inv/div/pow operands <= 6 blades in "
    "d=4 and full layouts of inv/div/pow/outertan/sqrt/sw/proj/normsq only for d<=3 (cost of symbolic generation)",
    "exact comparison when all coefficients stay exact; 1e-9 relative over the union of key sets once floats enter (outer "
    "series contain float constants, sqrt/exp/norm are float functions)",
    "a quarter of the cases run on an algebra with a pass-through wrapper (name-based dispatch path); other options: C13",
]
REQUIRED_LABELS = {"variant:perm": 0.1, "variant:pad": 0.1, "variant:full": 0.05}


def budget(tier):
    n = int(os.environ.get("KV_EXAMPLES", 0)) or (8000 if tier == "quick" else 60000)
    return {"examples": n, "shards": 16, "wall": 100 if tier == "quick" else 1000}


VARIANTS = ["same", "perm", "perm", "pad", "pad", "pad+perm", "pad+perm", "fullcanon", "fullbin"]


@st.composite
def _variant(draw, d, allow_full=True):
    kind = draw(st.sampled_from(VARIANTS if allow_full else [v for v in VARIANTS if not v.startswith("full")]))
    n = 2 ** d
    return {"kind": kind, "pad": draw(st.lists(st.integers(0, n - 1), unique=True, min_size=1, max_size=min(n, 4))),
            "order": list(draw(st.permutations(list(range(n)))))}


@st.composite
def _cases(draw, tier):
    op = draw(st.sampled_from(ALL_OPS))
    cfg = draw(S.configs(0, 4, custom=0.15, named=True, dweights=[0, 1, 2, 2, 3, 3, 3, 4, 4]))
    d = len(cfg["sig"])
    n = 2 ** d
    heavy = op in INVOPS or op in ("outertan", "sqrt", "pow0.5", "normalized", "norm", "sw", "proj", "normsq")
    case_padmax = None
    allow_full = not (heavy and d >= 4) and not (op == "outertan" and d >= 3)
    cap = 6 if (heavy and d >= 4) else None
    if op == "outertan" and d >= 3:
        cap = 4 if d == 3 else 3      # symbolic division: a full d=3 layout was measured at 29 s, 4+pad blades in d=4 at 16 s
        case_padmax = 1
    case = {"cfg": cfg, "op": op, "wrapper": draw(st.integers(0, 3)) == 0}
    classes = ["single", "sparse", "sparse", "gradeblock", "perm", "puregrade", "puregrade"]
    if op in ("sqrt", "pow0.5"):
        k = draw(st.integers(1, n - 1)) if n > 1 else 0
        el = {"0": str(draw(st.sampled_from([3, 4, 5, 7])))}
        if k:
            el[str(k)] = draw(st.sampled_from(["1/2", "-1/2", "1", "-1", "3/2", "-3/2", "1/4"]))
        case["a"] = {"cls": "study", "keys": [int(x) for x in el], "vals": list(el.values())}
    elif op in ("exp", "norm", "normalized"):
        if d and draw(st.booleans()):
            idx = draw(st.lists(st.integers(0, d - 1), unique=True, min_size=1, max_size=d))
            case["a"] = {"cls": "vector", "keys": [1 << i for i in idx],
                         "vals": [draw(st.sampled_from(["1/2", "-1/2", "1", "-1", "3/2", "1/4", "2"])) for _ in idx]}
        else:
            case["a"] = {"cls": "blade", "keys": [draw(st.integers(0, n - 1))], "vals": [draw(st.sampled_from(["1/2", "-1", "3/2", "2", "-1/4"]))]}
    elif op in SERIES:
        # homogeneous operands (bivectors, incl. non-simple ones from d=4 on) are what the outer series is used on
        a = draw(S.operand(d, classes=["puregrade"] * 4 + ["sparse", "perm"], max_len=cap, min_len=1, zero_prob=0.05))
        kv = [(k, v) for k, v in zip(a["keys"], a["vals"]) if k != 0]
        case["a"] = {"cls": a["cls"], "keys": [k for k, _ in kv], "vals": [v for _, v in kv]}
    else:
        case["a"] = draw(S.operand(d, classes=classes + ["empty"], max_len=cap, zero_prob=0.05))
    case["va"] = draw(_variant(d, allow_full))
    if case_padmax is not None:
        case["va"]["pad"] = case["va"]["pad"][:case_padmax]
    if op in EXACT_BIN or op == "div":
        case["b"] = draw(S.operand(d, classes=classes + ["empty"], max_len=cap, zero_prob=0.05))
        case["vb"] = draw(_variant(d, allow_full))
    if op == "pow":
        case["n"] = draw(st.sampled_from([-3, -2, -1, 0, 1, 2, 3]))
    return case


def cases(tier):
    return _cases(tier)


def enumerate_cases(tier):
    """Structural operands that random draws hit too rarely: non-simple homogeneous elements (B^B != 0) in d=4,5 for the series
    functions and the composites, each with every storage variant incl. padding by a HIGHER-grade blade and the dense layouts."""
    n_order = {4: list(range(16))[::-1], 5: list(range(32))[::-1]}
    for sig in ([1, 1, 1, 1], [0, 1, 1, 1], [1, 1, -1, -1], [1, 1, 1, 1, 1]):
        d = len(sig)
        top = 2 ** d - 1
        bases = [([3, 12], ["2", "3"]), ([5, 10, 12], ["1/2", "3", "-2"]), ([3, 5, 9, 6, 10, 12][::-1], ["2", "3", "5", "7", "1/3", "-1"])]
        if d == 5:
            bases = [([3, 12], ["2", "3"]), ([7, 24], ["1", "2"]), ([3, 12, 17], ["2", "3", "1/2"])]
        for keys, vals in bases:
            for op in ("outerexp", "outersin", "outercos", "normsq", "reverse", "sw", "inv"):
                if op in ("sw", "inv") and len(keys) > 3:
                    continue
                for kind, pad in (("pad", [top]), ("pad", [top, 0]), ("pad+perm", [top - 1, top]), ("fullcanon", [0]), ("fullbin", [0]), ("perm", [0])):
                    if kind.startswith("full") and (op in ("sw", "inv") or d == 5):
                        continue
                    case = {"cfg": {"sig": sig, "start": None, "basis": None}, "op": op, "wrapper": False,
                            "a": {"cls": "structural", "keys": keys, "vals": vals},
                            "va": {"kind": kind, "pad": pad, "order": n_order[d]}}
                    if op == "sw":
                        case["b"] = {"cls": "structural", "keys": [0, top], "vals": ["1", "2"]}
                        case["vb"] = {"kind": "same", "pad": [0], "order": n_order[d]}
                    yield case


def make_variant(keys, vals, spec, d, zero):
    keys, vals = list(keys), list(vals)
    kind = spec["kind"]
    if kind == "same":
        return keys, vals
    if kind.startswith("full"):
        allk = list(range(2 ** d))
        if kind == "fullcanon":
            allk = list(S.canon_sorted(allk))
        m = dict(zip(keys, vals))
        return allk, [m.get(k, zero) for k in allk]
    if "pad" in kind:
        for k in spec["pad"]:
            if k not in keys:
                keys.append(k)
                vals.append(zero)
        if "perm" not in kind:
            order = sorted(range(len(keys)), key=lambda i: (pc(keys[i]), S._bits(keys[i])))
            keys, vals = [keys[i] for i in order], [vals[i] for i in order]
    if "perm" in kind:
        rank = {k: i for i, k in enumerate(spec["order"])}
        order = sorted(range(len(keys)), key=lambda i: rank[keys[i]])
        nk = [keys[i] for i in order]
        if nk == keys and len(keys) > 1:
            order = order[::-1]
        keys, vals = [keys[i] for i in order], [vals[i] for i in order]
    return keys, vals


def _run(op, x, y, n):
    if op in EXACT_BIN or op == "div":
        return getattr(x, op)(y)
    if op == "pow":
        return x ** n
    if op == "pow0.5":
        return x ** 0.5
    return getattr(x, op)()


def _observe(op, x, y, n):
    try:
        return "ok", kd.to_dict(_run(op, x, y, n), op=op)
    except Violation:
        raise
    except Exception as e:
        return "exc", type(e).__name__ + ": " + str(e)[:120]


def evaluate(case):
    cfg, op = case["cfg"], case["op"]
    ref = RefAlgebra(cfg)
    d = ref.d
    alg = kd.build_algebra(cfg, wrapper=bool(case.get("wrapper")))
    floaty = op in FLOATOPS
    conv = (lambda v: float(frac(v))) if floaty else frac
    zero = 0.0 if floaty else F(0)
    ka, va = case["a"]["keys"], [conv(v) for v in case["a"]["vals"]]
    ka2, va2 = make_variant(ka, va, case["va"], d, zero)
    x, x2 = kd.mk(alg, ka, va), kd.mk(alg, ka2, va2)
    y = y2 = None
    kb = kb2 = None
    if "b" in case:
        kb, vb = case["b"]["keys"], [conv(v) for v in case["b"]["vals"]]
        kb2, vb2 = make_variant(kb, vb, case["vb"], d, zero)
        y, y2 = kd.mk(alg, kb, vb), kd.mk(alg, kb2, vb2)
    n = case.get("n")
    if op in ("norm", "normalized"):
        # domain: normsq must be a Study number with positive scalar part (here: a positive scalar), otherwise sqrt is
        # outside its stated domain and its result is known to depend on storage (DESIGN 2.10)
        nsq = clean(R(d, ref.T).normsq({k: frac(v) for k, v in zip(case["a"]["keys"], case["a"]["vals"])}))
        if set(nsq) - {0} or not nsq or nsq[0] <= 0:
            return Info(False, [f"op:{op}", f"d:{d}", "out-of-domain"], None)
    r1 = _observe(op, x, y, n)
    r2 = _observe(op, x2, y2, n)
    r3 = _observe(op, x, y, n)
    desc = f"{op} on keys {ka}" + (f" x {kb}" if kb is not None else "") + f" vs variant {ka2}" + (f" x {kb2}" if kb2 is not None else "")
    for name, a, b in (("variant vs base", r1, r2), ("base again after variant vs base", r1, r3)):
        if a[0] != b[0]:
            raise Violation("same-element", op, f"{name}: one raised, the other returned ({desc}): base={a[1] if a[0] == 'exc' else 'returned'}, "
                            f"other={b[1] if b[0] == 'exc' else 'returned'}", base=kd.show(a[1]) if a[0] == "ok" else a[1],
                            other=kd.show(b[1]) if b[0] == "ok" else b[1], exc="raise-mismatch")
        if a[0] == "ok":
            ok, why = kd.elem_equal(b[1], a[1])
            if not ok:
                raise Violation("same-element", op, f"{name} ({desc}): {why}", base=kd.show(a[1]), other=kd.show(b[1]))
    counters = {}
    if r1[0] == "exc":
        counters["both_raised:" + r1[1].split(":")[0]] = 1
    # the container is storage too: the same coefficients held in ONE numpy array per multivector (float64 / int64), with the
    # variant key order, must give the same element as the list-backed base
    if r1[0] == "ok" and (op in EXACT_BIN or op in EXACT_UN) and not floaty:
        import numpy as np
        allint = all(v.denominator == 1 for v in list(va) + (list(vb) if kb is not None else []))
        def nd(keys, vals, dtype):
            return kd.mk_raw(alg, keys, np.array([dtype(v) for v in vals], dtype=dtype))
        for dt_a, dt_b in ((float, float), (int, float)) if allint else ((float, float),):
            xa = nd(ka2, va2, dt_a)
            ya = nd(kb2, vb2, dt_b) if kb is not None else None
            r4 = _observe(op, xa, ya, n)
            if r4[0] != "ok":
                raise Violation("same-element", op, f"ndarray-backed operands ({dt_a.__name__}/{dt_b.__name__}) raised {r4[1]} where list-backed ones return ({desc})",
                                exc="raise-mismatch")
            ok, why = kd.elem_equal({k: (float(v) if np.ndim(v) == 0 else v) for k, v in r4[1].items()}, r1[1], 1e-9)
            if not ok:
                raise Violation("same-element", op, f"ndarray-backed operands ({dt_a.__name__}64/{dt_b.__name__}64, keys {ka2}" + (f" x {kb2}" if kb is not None else "")
                                + f") vs list-backed base ({desc}): {why}", base=kd.show(r1[1]), other=kd.show(r4[1]))
        counters["checked:ndarray-backed"] = 1
        if op in ("add", "sub") and len(ka) >= 3:
            # both operands hold the SAME blade set, the second one in a cyclically shifted key order (and ndarray-backed)
            sh = ka[1:] + ka[:1]
            m = dict(zip(ka, va))
            w = {k: m[k] * 2 + 1 for k in ka}
            xl, yl = kd.mk(alg, ka, [m[k] for k in ka]), kd.mk(alg, sh, [w[k] for k in sh])
            base_ = _observe(op, xl, yl, n)
            xn = kd.mk_raw(alg, ka, np.array([float(m[k]) for k in ka]))
            yn = kd.mk_raw(alg, sh, np.array([float(w[k]) for k in sh]))
            nd_ = _observe(op, xn, yn, n)
            if base_[0] == "ok":
                if nd_[0] != "ok":
                    raise Violation("same-element", op, f"ndarray-backed {op} of keys {ka} and {sh} raised {nd_[1]}", exc="raise-mismatch")
                ok, why = kd.elem_equal({k: float(v) for k, v in nd_[1].items()}, base_[1], 1e-9)
                if not ok:
                    raise Violation("same-element", op, f"{op} of two ndarray-backed operands with the same blades in key orders {ka} / {sh} "
                                    f"vs the list-backed ones: {why}", base=kd.show(base_[1]), other=kd.show(nd_[1]))
    # the same independence for compiled (registered) functions: the operator itself, and grade selection applied directly to
    # an argument, on base and variant storage
    if r1[0] == "ok" and (op in EXACT_BIN or op in EXACT_UN) and not floaty and d <= 4 and len(ka2) <= 10 and (kb2 is None or len(kb2) <= 10) \
            and op not in ("inv", "div", "sw", "proj"):
        gsel = tuple(sorted({pc(k) for k in ka}))[:2] or (0,)
        if kb is not None:
            def f_op(a, b, _op=op):
                return getattr(a, _op)(b)
        else:
            def f_op(a, _op=op):
                return getattr(a, _op)()

        def f_grade(a, _g=gsel):
            return a.grade(*_g)
        for what, fn, base_args, var_args, expd in (
                (f"registered {op}", f_op, (x, y) if kb is not None else (x,), (x2, y2) if kb is not None else (x2,), r1[1]),
                (f"registered grade{gsel} of the argument", f_grade, (x,), (x2,), {k: v for k, v in zip(ka, va) if pc(k) in gsel})):
            reg = alg.register(fn)
            for tag, args in (("base", base_args), ("variant", var_args)):
                try:
                    rg = kd.to_dict(reg(*args), op=op)
                except Exception as e:
                    raise Violation("same-element", op, f"{what} raised {type(e).__name__}: {e} on the {tag} storage ({desc})", exc="raise-mismatch")
                ok, why = kd.elem_equal(rg, expd)
                if not ok:
                    raise Violation("same-element", op, f"{what} on the {tag} storage ({desc}): {why}", base=kd.show(expd), other=kd.show(rg))
        counters["checked:registered"] = 1
    # storing the variant into an array-valued container that lists the blades in the base order: refused, or stored blade by blade
    if sorted(ka2) == sorted(ka) and list(ka2) != list(ka) and not floaty and len(ka) >= 2:
        import numpy as np
        cont = kd.mk_raw(alg, ka, np.zeros((len(ka), 2)))
        src = kd.mk_raw(alg, ka2, np.array([float(v) for v in va2]))
        try:
            cont[0] = src
            stored = True
        except Exception:
            stored = False
        if stored:
            got_ = {k: float(np.asarray(v)[0]) for k, v in zip(cont.keys(), cont.values())}
            want_ = {k: float(v) for k, v in zip(ka2, va2)}
            if any(abs(got_[k] - want_[k]) > 1e-12 for k in want_):
                raise Violation("same-element", "setitem", f"container[0] = y with y listing the blades as {ka2} (container: {ka}) was accepted but "
                                f"stored {got_}, the element is {want_}")
        counters["checked:setitem-variant"] = 1
    # anchor exact operators to the reference as well (excludes a common-mode error of all three calls)
    if r1[0] == "ok" and (op in EXACT_BIN or op in EXACT_UN):
        Rr = R(d, ref.T)
        try:
            exp = r_apply(Rr, op, dict(zip(ka, va)), dict(zip(kb, vb)) if kb is not None else None)
            ok, why = kd.elem_equal(r1[1], exp)
            if not ok:
                raise Violation("value", op, f"{desc}: {why}", observed=kd.show(r1[1]), expected=kd.show(exp))
        except RefUndefined:
            pass
    if r1[0] == "ok" and op in ("gp", "op", "ip", "sub", "add", "cp") and d <= 3 and ka and kb and len(ka) <= 4 and len(kb) <= 4 and not floaty \
            and not cfg.get("basis"):
        # symbolic coefficients in a GRADED algebra: operands padded with explicit zeros to complete grades must give the element
        # the sparse symbolic operands give in the default mode
        import sympy
        galg = kd.build_algebra(cfg, graded=True)

        def symmv(a_, keys, prefix):
            grades = {pc(k) for k in keys}
            extra = (sum(keys) + len(keys)) % 4      # which extra complete (all-zero) grades the stored layout carries
            if extra == 1:
                grades |= {min(d, max(grades) + 1)}
            elif extra == 2:
                grades |= {max(0, min(grades) - 1)}
            elif extra == 3:
                grades = set(range(d + 1))
            grades = sorted(grades)
            full = list(ref.keys_of_grades(grades))
            sy = {k: sympy.Symbol(f"{prefix}{k}") for k in keys}
            return a_.multivector(keys=tuple(full), values=[sy.get(k, 0) for k in full]), sy
        gx, sa = symmv(galg, ka, "p")
        gy, sb = symmv(galg, kb, "q")
        sx = alg.multivector(keys=tuple(ka), values=[sa[k] for k in ka])
        sy_ = alg.multivector(keys=tuple(kb), values=[sb[k] for k in kb])
        g1 = _observe(op, gx, gy, n)
        s1 = _observe(op, sx, sy_, n)
        if s1[0] == "ok":
            if g1[0] != "ok":
                raise Violation("same-element", op, f"graded algebra, symbolic zero-padded operands raised {g1[1]} ({desc})", exc="raise-mismatch")
            for k in set(g1[1]) | set(s1[1]):
                if sympy.expand(sympy.sympify(g1[1].get(k, 0)) - sympy.sympify(s1[1].get(k, 0))) != 0:
                    raise Violation("same-element", op, f"symbolic operands zero-padded to complete grades in a graded algebra vs sparse ones in the "
                                    f"default algebra ({desc}): blade {k}: {g1[1].get(k, 0)} vs {s1[1].get(k, 0)}")
            counters["checked:graded-symbolic"] = 1
    differs = (list(ka2) != list(ka)) or (kb is not None and list(kb2) != list(kb))
    vk = {case["va"]["kind"]} | ({case["vb"]["kind"]} if "vb" in case else set())
    labels = [f"op:{op}", f"d:{d}", "result:" + r1[0]] + (["opt:wrapper"] if case.get("wrapper") else [])
    if any("perm" in k for k in vk):
        labels.append("variant:perm")
    if any("pad" in k for k in vk):
        labels.append("variant:pad")
    if any(k.startswith("full") for k in vk):
        labels.append("variant:full")
    key = [cfg["sig"], cfg.get("start"), cfg.get("basis"), op, ka, kb, ka2, kb2, n, bool(case.get("wrapper"))]
    return Info(differs, labels, key, counters)


FINDING_PREDICATES = {}

MANIFEST_META = {
    "technique": "metamorphic property-based testing (Hypothesis): same element, different storage (permutation, explicit zeros, "
                 "dense canonical/binary layout) must give the same element for every operator",
    "level_text": "For each of 36 operators / composites a generated base operand and a constructed storage variant (permuted keys, "
                  "zero-padded superset, full canonical or binary layout) are evaluated on one algebra in the order base, variant, "
                  "base; the three results must be the same element or all raise. Exact operators are additionally anchored to the "
                  "independent reference."
                  " Also: ndarray-backed storage of the same element (incl. two operands with cyclically shifted key orders), symbolic operands zero-padded to complete (and extra) grades in a graded algebra, and the operator as well as grade selection inside a registered function on base and variant storage."
                  " Storing the permuted variant into an array-valued container is refused or blade-wise right.",
    "level_note": "Metamorphic: compares kingdon with itself (plus reference anchoring for the exact operators). d<=4; cost caps on "
                  "inverse-like operators; sqrt/exp only inside their documented domains.",
}
