"""C13 -- algebra options change speed, never results."""
from __future__ import annotations
import os
from fractions import Fraction as F

from hypothesis import strategies as st

from ..core import Violation, Info, frac
from ..refalg import RefAlgebra
from ..refops import R, pc, clean
from .. import strategies as S
from .. import kd
from ..opsuite import RefUndefined, r_apply

ID = "C13"
BIN = ["gp", "op", "ip", "lc", "rc", "sp", "cp", "acp", "add", "sub", "rp", "sw", "proj", "div"]
UN = ["neg", "reverse", "involute", "conjugate", "normsq", "hodge", "unhodge", "polarity", "unpolarity", "inv",
      "outerexp", "outersin", "outercos", "outertan", "sqrt"]
EXACT = set(BIN + UN) - {"outerexp", "outersin", "outercos", "outertan", "sqrt"}
RULE = ("case = (signature ordering d<=3 quick / d<=4 thorough incl. degenerate ones, one of 29 operators, operands on "
        "grade-block key patterns (complete grades in canonical order, valid in every mode; sqrt on Study numbers scalar + one "
        "complete grade with dominant positive scalar), Fraction values, an option vector from {cse} x {graded} x "
        "{codegen_symbolcls None / sympy.Symbol} x {wrapper None / pass-through} x {pretty_blade}). The operator is run on a "
        "default-options algebra, on the algebra with the option vector, and in the reference model. Non-trivial = option "
        "vector != default AND the result stores >= 2 blades. distinct = hash(signature, op, grades, option vector).")
ASSUMPTIONS = [
    "differential against the default-options algebra AND against kv.refops (so a common-mode error is not masked)",
    "an operation that succeeds with default options must succeed with every option vector; in graded mode every result "
    "must store complete grades",
    "exact comparison for Fractions; 1e-9 relative where kingdon introduces floats (outer series, sqrt)",
    "the wrapper is a pure-Python pass-through keeping __name__; numba is not installed",
]
REQUIRED_LABELS = {"opt:graded": 0.2, "opt:symcls": 0.2, "opt:wrapper": 0.2, "opt:nocse": 0.2, "sig:degenerate": 0.1}


def budget(tier):
    n = int(os.environ.get("KV_EXAMPLES", 0)) or (6000 if tier == "quick" else 30000)
    return {"examples": n, "shards": 16, "wall": 100 if tier == "quick" else 1200}


@st.composite
def _gradeblock(draw, d, maxblades=None):
    gs = sorted(draw(st.sets(st.integers(0, d), min_size=1, max_size=d + 1)))
    keys = [k for k in S.canon_sorted(range(2 ** d)) if pc(k) in gs]
    while maxblades and len(keys) > maxblades and len(gs) > 1:
        gs = gs[:-1]
        keys = [k for k in S.canon_sorted(range(2 ** d)) if pc(k) in gs]
    return {"grades": gs, "keys": keys, "vals": [draw(S.fracs(zero_prob=0.05)) for _ in keys]}


@st.composite
def _cases(draw, tier):
    dmax = 3 if tier == "quick" else 4
    cfg = draw(S.configs(0, dmax, custom=0.15, starts=(None, 0, 1), dweights=[0, 1, 2, 2, 3, 3, 3] + [4] * (dmax >= 4)))
    d = len(cfg["sig"])
    kind = draw(st.sampled_from(["bin", "bin", "un"]))
    op = draw(st.sampled_from(BIN if kind == "bin" else UN))
    heavy = op in ("inv", "div", "outertan", "sw", "proj", "sqrt")
    cap = 6 if (heavy and d >= 3) else (8 if d >= 4 else None)
    if op == "sqrt":
        g = draw(st.integers(1, d)) if d else 0
        keys = [0] + ([k for k in S.canon_sorted(range(2 ** d)) if pc(k) == g] if d else [])
        vals = [str(draw(st.sampled_from([5, 6, 7, 9])))] + [draw(st.sampled_from(["1/2", "-1/2", "1/4", "1/3", "-1/4", "0"])) for _ in keys[1:]]
        a = {"grades": sorted({0, g}), "keys": keys, "vals": vals}
    else:
        a = draw(_gradeblock(d, cap))
        if op.startswith("outer"):
            if 0 in a["grades"] and len(a["grades"]) > 1:
                a = {"grades": [g for g in a["grades"] if g], "keys": a["keys"][1:], "vals": a["vals"][1:]}
    b = draw(_gradeblock(d, cap)) if kind == "bin" else None
    opts = {"cse": draw(st.booleans()), "graded": draw(st.booleans()), "symcls": draw(st.sampled_from([None, "sympy"])),
            "wrapper": draw(st.booleans()), "pretty_blade": draw(st.sampled_from([None, "e", "g"]))}
    vmode = draw(st.sampled_from(["frac", "frac", "frac", "bool", "bigint", "int", "complex"])) if op in EXACT and op not in ("inv", "div") else "frac"
    # the empty multivector as an operand (a boundary of every operator's domain)
    if op != "sqrt" and draw(st.integers(0, 7)) == 0:
        if b is not None and draw(st.booleans()):
            b = {"grades": [], "keys": [], "vals": []}
        else:
            a = {"grades": [], "keys": [], "vals": []}
    # a composite operator generated on the same operands BEFORE the operator under test (order of first use)
    pre = draw(st.sampled_from([None, None, None, "normsq", "sw", "proj", "inv", "polarity", "outerexp", "normsq"]))
    if pre in ("sw", "proj", "inv", "outerexp") and (len(a["keys"]) > 4 or (b and len(b["keys"]) > 4)):
        pre = "normsq"
    if pre and b is not None and a["keys"] and draw(st.booleans()):
        # same key pattern on both sides: the operator under test then meets exactly the patterns the composite generated internally
        b = {"grades": list(a["grades"]), "keys": list(a["keys"]), "vals": [draw(S.fracs(zero_prob=0.05)) for _ in a["keys"]]}
    return {"cfg": cfg, "op": op, "a": a, "b": b, "opts": opts, "vmode": vmode,
            "build": draw(st.sampled_from(["ctor", "ctor", "blades"])), "pre": pre}


def cases(tier):
    return _cases(tier)


def _keys(ref, opnd):
    """Complete grades in the algebra's own canonical order (for a custom basis: the order of the basis list)."""
    return list(ref.keys_of_grades(opnd["grades"]))


def _conv(case, floaty):
    vm = case.get("vmode", "frac")
    if floaty:
        return lambda v: float(frac(v))
    if vm == "bool":
        return lambda v: bool(frac(v) > 0)
    if vm == "int":
        return lambda v: int(frac(v).numerator)
    if vm == "bigint":
        return lambda v: int(frac(v).numerator) * 3000001 + 7      # products of three exceed 2**63: exact Python ints
    if vm == "complex":
        return lambda v: complex(float(frac(v)), 1.0)
    return frac


def _mv(alg, ref, keys, vals, how):
    """Build the operand through the constructor or as a sum of alg.blades (the way users write e.g. 3*alg.blades.e14)."""
    if not keys:
        return alg.multivector()
    if how == "blades":
        acc = None
        for k, v in zip(keys, vals):
            term = alg.blades[ref.bin2name[k]] * v
            acc = term if acc is None else acc + term
        return acc
    return alg.multivector(keys=tuple(keys), values=list(vals))


def _run(alg, op, case, floaty, ref):
    conv = _conv(case, floaty)
    how = case.get("build", "ctor") if case.get("vmode", "frac") == "frac" and not floaty else "ctor"
    ka = _keys(ref, case["a"])
    try:
        x = _mv(alg, ref, ka, [conv(v) for v in case["a"]["vals"]], how)
        y = None
        if case["b"] is not None:
            kb = _keys(ref, case["b"])
            y = _mv(alg, ref, kb, [conv(v) for v in case["b"]["vals"]], how)
    except Exception as e:
        return "exc", f"{type(e).__name__}: building the operands: {str(e)[:160]}"
    pre = case.get("pre")
    if pre:
        for u in (x, y):
            if u is not None:
                try:
                    getattr(u, pre)(x) if pre in ("sw", "proj") else getattr(u, pre)()
                except Exception:
                    pass
    try:
        r = getattr(x, op)(y) if y is not None else getattr(x, op)()
        return "ok", r
    except Exception as e:
        return "exc", f"{type(e).__name__}: {str(e)[:200]}"


def evaluate(case):
    cfg, op, opts = case["cfg"], case["op"], case["opts"]
    ref = RefAlgebra(cfg)
    d = ref.d
    floaty = op == "sqrt"
    o = {k: v for k, v in opts.items() if v not in (None, False)}
    if "cse" not in o:
        o["cse"] = opts["cse"]
    base_alg = kd.build_algebra(cfg)
    opt_alg = kd.build_algebra(cfg, **o)
    s0, r0 = _run(base_alg, op, case, floaty, ref)
    s1, r1 = _run(opt_alg, op, case, floaty, ref)
    desc = f"{op} on grades {case['a']['grades']}" + (f" x {case['b']['grades']}" if case["b"] else "") + f" in signature {ref.sig} with options {o}"
    counters = {}
    labels = [f"op:{op}", f"d:{d}"]
    if opts["graded"]:
        labels.append("opt:graded")
    if opts["symcls"]:
        labels.append("opt:symcls")
    if opts["wrapper"]:
        labels.append("opt:wrapper")
    if not opts["cse"]:
        labels.append("opt:nocse")
    if 0 in ref.sig:
        labels.append("sig:degenerate")
    key = [cfg["sig"], cfg.get("start"), cfg.get("basis"), op, case["a"]["grades"], case["b"] and case["b"]["grades"], o, case.get("vmode"), case.get("build"), case.get("pre")]
    if case.get("pre"):
        labels.append("pre:composite-first")
    if not case["a"]["grades"] or (case["b"] is not None and not case["b"]["grades"]):
        labels.append("operand:empty")
    labels += [f"vmode:{case.get('vmode', 'frac')}", f"build:{case.get('build', 'ctor')}"]
    if cfg.get("basis"):
        labels.append("basis:custom")
    if s0 == "exc":
        counters["default-raised:" + r0.split(":")[0]] = 1
        if s1 == "ok":
            counters["options-returned-where-default-raised"] = 1
        return Info(False, labels + ["default-raised"], key, counters)
    e0 = kd.to_dict(r0, op=op)
    if s1 == "exc":
        raise Violation("succeeds-in-every-mode", op, f"{desc}: succeeds with default options but raised {r1}",
                        exc=r1.split(":")[0], default=kd.show(e0))
    e1 = kd.to_dict(r1, op=op)
    tol = None if op in EXACT and case.get("vmode", "frac") != "complex" else 1e-9
    ok, why = kd.elem_equal(e1, e0, tol)
    if not ok:
        raise Violation("equal-elements", op, f"{desc}: {why}", with_options=kd.show(e1), default=kd.show(e0))
    if opts["graded"]:
        have = set(e1)
        for g in {pc(k) for k in have}:
            need = {k for k in range(2 ** d) if pc(k) == g}
            if not need <= have:
                raise Violation("graded-complete-grades", op, f"{desc}: result stores blades {sorted(have)}; grade {g} is incomplete "
                                f"(missing {sorted(need - have)})", result=kd.show(e1))
    # anchor to the reference
    if op in EXACT:
        Rr = R(d, ref.T)
        cv = _conv(case, False)
        da = {k: cv(v) for k, v in zip(_keys(ref, case["a"]), case["a"]["vals"])}
        db = {k: cv(v) for k, v in zip(_keys(ref, case["b"]), case["b"]["vals"])} if case["b"] else None
        try:
            exp = r_apply(Rr, op, da, db)
            ok, why = kd.elem_equal({k: (int(v) if isinstance(v, bool) else v) for k, v in e0.items()},
                                    {k: (int(v) if isinstance(v, bool) else v) for k, v in exp.items()}, tol)
            if not ok:
                raise Violation("value", op, f"{desc} (default options) vs reference: {why}", observed=kd.show(e0), expected=kd.show(exp))
        except RefUndefined:
            pass
    nondefault = opts["graded"] or opts["symcls"] or opts["wrapper"] or not opts["cse"] or opts["pretty_blade"]
    return Info(bool(nondefault) and len(clean(e0)) >= 2, labels, key, counters)


def _pred_graded_degenerate(case, v, **_):
    """graded=True with a null generator: generated results keep only the blades that can be non-zero, which is an incomplete
    grade; the next operation on such a result raises ValueError ('In graded mode, the keys should be equal ...')."""
    return (case["opts"].get("graded") and 0 in case["cfg"]["sig"]
            and (v.clause == "graded-complete-grades" or (v.clause == "succeeds-in-every-mode" and v.data.get("exc") == "ValueError")))


FINDING_PREDICATES = {"graded_degenerate": _pred_graded_degenerate}

MANIFEST_META = {
    "technique": "differential property-based testing across configurations (Hypothesis): same operands, default options vs a drawn "
                 "option vector vs independent reference",
    "level_text": "For generated signatures (incl. degenerate), every operator and grade-block operands, the result under a drawn option "
                  "vector {cse, graded, codegen_symbolcls, wrapper, pretty_blade} must be the same element as under default options "
                  "(and as the reference for exact operators), must not raise where the default succeeds, and must store complete "
                  "grades in graded mode."
                  " Operands include the empty multivector; in a third of the cases a composite operator is generated on the same operands before the operator under test (order of first use); value modes bool / big int / complex.",
    "level_note": "One option vector per case (all 16 x 3 combinations occur across a run; counts in evidence labels). Wrapper is a "
                  "Python pass-through. d<=3 quick, d<=4 thorough.",
}
