"""C04 -- sum, difference, negation, involutions and grade selection act blade-wise."""
from __future__ import annotations
import os

from hypothesis import strategies as st

from ..core import Violation, Info, frac
from ..refalg import RefAlgebra
from ..refops import R, pc, clean
from ..ring import Q
from .. import strategies as S
from .. import kd

ID = "C04"
KINDS = ["add", "sub", "neg", "reverse", "involute", "conjugate", "grade", "laws", "sub", "grade"]
RULE = ("case = (algebra config d<=8 incl. lazily tabulated d>=7 and custom bases, kind in {add, sub, neg, reverse, involute, "
        "conjugate, grade selection, involution laws}, ordered key tuples (disjoint / overlapping / identical / empty / "
        "permuted), generic or Fraction coefficients with explicit zeros, grade selection given as ascending tuple or "
        "varargs incl. grades absent from the operand and the empty selection). Non-trivial = sub with a blade stored "
        "only by b, OR an involution applied to an operand holding a grade whose sign is -1, OR a grade selection that "
        "keeps some and drops some stored blades, OR a law case with both operands holding >= 2 blades. "
        "distinct = hash(config, kind, keys, grades, mode).")
ASSUMPTIONS = [
    "blade-wise definitions and closed-form involution signs in kv.refops; anti-automorphism laws checked on kingdon's "
    "own gp with generic coefficients (d<=4)",
    "grade selection compares stored zeros too ('exactly the stored coefficients'); order of result keys is not compared",
    "grades are passed ascending and distinct (the two documented call forms); a grade > d or unsorted tuple raises "
    "KeyError and is not asserted",
]
REQUIRED_LABELS = {"order:noncanonical": 0.05, "kind:sub": 0.05, "kind:grade": 0.05, "kind:laws": 0.03, "d>=7": 0.03}


def budget(tier):
    n = int(os.environ.get("KV_EXAMPLES", 0)) or (24000 if tier == "quick" else 100000)
    return {"examples": n, "shards": 8 if tier == "quick" else 16, "wall": 70 if tier == "quick" else 600}


@st.composite
def _cases(draw):
    kind = draw(st.sampled_from(KINDS))
    dmax = 4 if kind == "laws" else 8
    cfg = draw(S.configs(0, dmax, custom=0.15 if dmax <= 5 else 0.0,
                         dweights=[0, 1, 2, 3, 3, 4, 4] + ([5, 6, 7, 8] if dmax == 8 else [])))
    d = len(cfg["sig"])
    if cfg.get("basis") and d > 5:
        cfg["basis"] = None
    cap = 6 if kind == "laws" and d == 4 else (24 if d >= 6 else None)
    a = draw(S.operand(d, max_len=cap))
    rel = draw(st.sampled_from(["indep", "same", "overlap", "disjoint"]))
    if kind in ("add", "sub", "laws"):
        if rel == "same" and a["keys"]:
            ks = list(draw(st.permutations(a["keys"])))
            b = {"cls": "same", "keys": ks, "vals": draw(S.frac_values(len(ks)))}
        elif rel == "disjoint" and a["keys"] and len(a["keys"]) < 2 ** d:
            rest = [k for k in range(2 ** d) if k not in a["keys"]]
            idx = draw(st.lists(st.integers(0, len(rest) - 1), unique=True, min_size=1, max_size=min(len(rest), 8)))
            ks = [rest[i] for i in idx]
            b = {"cls": "disjoint", "keys": ks, "vals": draw(S.frac_values(len(ks)))}
        else:
            b = draw(S.operand(d, max_len=cap))
    else:
        b = None
    case = {"cfg": cfg, "kind": kind, "a": a, "b": b, "mode": draw(st.sampled_from(["generic", "frac", "frac", "typed"]))}
    if kind == "grade":
        gs = sorted(draw(st.sets(st.integers(0, d), max_size=d + 1)))
        case["grades"] = gs
        case["form"] = draw(st.sampled_from(["tuple", "varargs"]))
    return case


def cases(tier):
    return _cases()


def _values(opnd, mode, prefix):
    if mode == "generic":
        return [Q.var(f"{prefix}{k}") for k in opnd["keys"]]
    if mode == "typed" and opnd.get("tvals"):
        from .. import values as V
        return V.decode(opnd["tvals"])
    return [frac(v) for v in opnd["vals"]]


def _call(fn, clause, op):
    try:
        return fn()
    except Violation:
        raise
    except Exception as e:
        raise Violation(clause, op, f"raised {type(e).__name__}: {e}", exc=type(e).__name__)


def _expect(got, exp, clause, op, what):
    ok, why = kd.elem_equal(got, exp)
    if not ok:
        raise Violation(clause, op, f"{what}: {why}", observed=kd.show(got), expected=kd.show(exp))


SIGN_NEG = {"reverse": (2, 3), "involute": (1, 3), "conjugate": (1, 2)}


def evaluate(case):
    cfg, kind = case["cfg"], case["kind"]
    ref = RefAlgebra(cfg)
    Rr = R(ref.d, ref.T)
    alg = kd.build_algebra(cfg)
    ka = case["a"]["keys"]
    va = _values(case["a"], case["mode"], "a")
    x = kd.mk(alg, ka, va)
    da = dict(zip(ka, va))
    nontrivial = False
    labels = [f"kind:{kind}", f"d:{ref.d}", f"mode:{case['mode']}"]
    if ref.d >= 7:
        labels.append("d>=7")
    noncanon = not S.is_canonical(ka)
    if case["b"] is not None:
        kb = case["b"]["keys"]
        vb = _values(case["b"], case["mode"], "b")
        y = kd.mk(alg, kb, vb)
        db = dict(zip(kb, vb))
        noncanon = noncanon or not S.is_canonical(kb)
    if kind in ("add", "sub"):
        infix = (lambda: x + y) if kind == "add" else (lambda: x - y)
        got = kd.to_dict(_call(infix, "blade-wise", kind), op=kind)
        _expect(got, getattr(Rr, kind)(da, db), "blade-wise", kind, f"a {'+' if kind == 'add' else '-'} b")
        got2 = kd.to_dict(_call(lambda: getattr(x, kind)(y), "blade-wise", kind), op=kind)
        _expect(got2, getattr(Rr, kind)(da, db), "blade-wise", kind, f"a.{kind}(b)")
        # every blade stored by either operand can receive a non-zero coefficient and must be readable
        nontrivial = kind == "sub" and any(k not in da for k in db)
        if kind == "add":
            nontrivial = bool(set(da) & set(db)) and bool(set(da) ^ set(db))
    elif kind == "neg":
        got = kd.to_dict(_call(lambda: -x, "blade-wise", "neg"), op="neg")
        _expect(got, Rr.neg(da), "blade-wise", "neg", "-a")
        nontrivial = len(ka) >= 2
    elif kind in SIGN_NEG:
        fn = (lambda: ~x) if kind == "reverse" else (lambda: getattr(x, kind)())
        res = _call(fn, "involution-sign", kind)
        got = kd.to_dict(res, op=kind)
        _expect(got, getattr(Rr, kind)(da), "involution-sign", kind, f"{kind}(a)")
        twice = kd.to_dict(_call(lambda: getattr(res, kind)(), "involution-twice", kind), op=kind)
        _expect(twice, da, "involution-twice", kind, f"{kind}({kind}(a))")
        nontrivial = any(pc(k) % 4 in SIGN_NEG[kind] for k in ka)
    elif kind == "grade":
        gs = tuple(case["grades"])
        fn = (lambda: x.grade(gs)) if case["form"] == "tuple" else (lambda: x.grade(*gs))
        res = _call(fn, "grade-selection", "grade")
        got = kd.to_dict(res, op="grade")
        exp = {k: v for k, v in da.items() if pc(k) in gs}
        if set(got) != set(exp):
            raise Violation("grade-selection", "grade", f"grade{gs} stored blades {sorted(got)} but exactly {sorted(exp)} "
                            f"are the stored blades of those grades", observed=kd.show(got), expected=kd.show(exp))
        _expect(got, exp, "grade-selection", "grade", f"a.grade{gs}")
        nontrivial = 0 < len(exp) < len(da)
        labels.append(f"form:{case['form']}")
        if case["mode"] != "generic":
            # grade selection inside a compiled (registered) function must select the same coefficients
            def f(a):
                return a.grade(gs)
            reg = kd.to_dict(_call(lambda: alg.register(f)(x), "grade-selection", "grade"), op="grade")
            _expect(reg, exp, "grade-selection", "grade", f"alg.register(lambda a: a.grade{gs})(a) with keys {ka}")
    elif kind == "laws":
        ab = _call(lambda: x * y, "law", "gp")
        for inv, anti in (("reverse", True), ("conjugate", True), ("involute", False)):
            lhs = kd.to_dict(_call(lambda: getattr(ab, inv)(), "law", inv), op=inv)
            xi, yi = getattr(x, inv)(), getattr(y, inv)()
            rhs = kd.to_dict(_call(lambda: (yi * xi) if anti else (xi * yi), "law", inv), op=inv)
            _expect(lhs, rhs, "anti-automorphism" if anti else "automorphism", inv,
                    f"{inv}(a*b) vs " + (f"{inv}(b)*{inv}(a)" if anti else f"{inv}(a)*{inv}(b)"))
            # and against the reference
            _expect(lhs, getattr(Rr, inv)(Rr.gp(da, db)), "involution-sign", inv, f"{inv}(a*b)")
        nontrivial = len(ka) >= 2 and len(kb) >= 2
    # the same operation on SYMBOLIC operands (symbols a1, a2, a12 ...), the result evaluated by a keyword call
    if case["mode"] == "frac" and ref.d <= 4 and 1 <= len(ka) <= 8 and (case["b"] is None or 1 <= len(case["b"]["keys"]) <= 8) and kind != "laws":
        if kind in ("add", "sub"):
            fn, opnds, expd = (lambda a, b: getattr(a, kind)(b)), [("a", ka, va), ("b", kb, vb)], getattr(Rr, kind)(da, db)
        elif kind == "neg":
            fn, opnds, expd = (lambda a: -a), [("a", ka, va)], Rr.neg(da)
        elif kind in SIGN_NEG:
            fn, opnds, expd = (lambda a: getattr(a, kind)()), [("a", ka, va)], getattr(Rr, kind)(da)
        else:
            gs_ = tuple(case["grades"])
            fn, opnds, expd = (lambda a: a.grade(gs_)), [("a", ka, va)], {k: v for k, v in da.items() if pc(k) in gs_}
        sc = kd.to_dict(_call(lambda: kd.sym_call(alg, fn, opnds), "blade-wise", kind), op=kind)
        ok, why = kd.elem_equal({k: kd.plain(v) for k, v in sc.items()}, expd, 1e-9)
        if not ok:
            raise Violation("blade-wise", kind, f"symbolic operands (keys {ka}" + (f" / {case['b']['keys']}" if case["b"] else "") +
                            f"), {kind}, then a keyword call with the values: {why}", observed=kd.show(sc), expected=kd.show(expd))
    labels.append("order:noncanonical" if noncanon else "order:canonical")
    key = [cfg["sig"], cfg.get("start"), cfg.get("basis"), kind, ka, case["b"]["keys"] if case["b"] else None,
           case.get("grades"), case.get("form"), case["mode"]]
    return Info(nontrivial, labels, key)


FINDING_PREDICATES = {}

MANIFEST_META = {
    "technique": "property-based testing (Hypothesis): blade-wise reference model + algebraic laws (involution, "
                 "(anti)automorphism) on generated sparse operands with generic-ring coefficients",
    "level_text": "Generated operands (any subset/order of blades, d<=8 incl. the lazily tabulated algebras, custom bases) are "
                  "combined with +, -, unary -, the three involutions and grade selection and compared blade by blade with the "
                  "definitions; involutions are applied twice and checked as (anti)automorphisms of kingdon's own product "
                  "with indeterminate coefficients."
                  " Symbolic operands are combined and the result called with keyword values.",
    "level_note": "Trusted: kv.refops closed-form signs, kv.ring.Q, Hypothesis. Sampling only; laws limited to d<=4.",
}
