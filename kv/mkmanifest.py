"""Regenerate MANIFEST.json from the property modules that exist (python -m kv.mkmanifest)."""
import importlib
import json
import os

HERE = os.path.dirname(os.path.dirname(os.path.abspath(__file__)))
BASELINE = "cd /repo && /venv/bin/python -m pytest -ra -q -p no:cacheprovider --timeout=900 --continue-on-collection-errors tests"
SETUP = ("/venv/bin/python -c 'import hypothesis' 2>/dev/null || "
         "/venv/bin/pip install --no-index --find-links /opt/veriftools/wheels hypothesis; "
         "/venv/bin/python -c 'import sys; sys.path.insert(0, \"/verif/.deps\"); import atheris' 2>/dev/null || "
         "/venv/bin/pip install -q --no-index --find-links /opt/veriftools/wheels --target /verif/.deps atheris || true; "
         "/venv/bin/python -c 'import hypothesis, numpy, sympy, kingdon; print(hypothesis.__version__, kingdon.__file__)'")


def main():
    props = [json.loads(l) for l in open(os.path.join(HERE, "properties.jsonl"))]
    checks, na = [], []
    for p in props:
        pid = p["id"]
        path = os.path.join(HERE, "kv", "props", pid.lower() + ".py")
        if not os.path.exists(path):
            na.append({"property_id": pid, "reason": "check not built yet in this round (planned, see DESIGN.md section 3)"})
            continue
        src = open(path).read()
        meta = {}
        # read metadata without importing kingdon: MANIFEST_META = {...} literal in the module
        import ast
        tree = ast.parse(src)
        for node in tree.body:
            if isinstance(node, ast.Assign) and getattr(node.targets[0], "id", "") == "MANIFEST_META":
                meta = ast.literal_eval(node.value)
        if meta.get("not_applicable"):
            na.append({"property_id": pid, "reason": meta["not_applicable"]})
            continue
        checks.append({
            "property_id": pid,
            "quick_cmd": f"./check {pid} --tier quick",
            "thorough_cmd": f"./check {pid} --tier thorough",
            "evidence_file": f"evidence/{pid}.json",
            "replay_cmd_template": f"./check {pid} --replay {{path}}",
            "engine": "kv",
            "level_claimed": {"category": "exploration",
                              "text": meta.get("level_text", "generated-input search against an explicit oracle"),
                              "design_ref": f"DESIGN.md section 3, {pid}"},
            "level_note": meta.get("level_note", ""),
            "technique": meta.get("technique", "property-based testing (Hypothesis) against a reference model"),
        })
    man = {
        "version": 1,
        "setup_cmd": SETUP,
        "hooks": {"guard": "TBULI_KINGDON_VERIF",
                  "enable": "no source hooks are needed: all observation is through the public API, monkeypatched module "
                            "attributes set from the harness process, and sys.settrace; the guard is read by no source line",
                  "baseline_off_cmd": BASELINE, "source_commits": [], "add_only": True},
        "engines": [{"name": "kv", "path": "kv/", "serves_properties": [c["property_id"] for c in checks],
                     "kind_free_text": "Hypothesis-driven generators + enumerated sub-spaces, sharded over processes; "
                                       "independent reference Clifford algebra, generic rational-function coefficient ring, "
                                       "exact linear-algebra inverse; shrinking to JSON replay files"}],
        "checks": checks,
        "not_applicable": na,
        "notes": "All checks: exit 0 held / 1 VIOLATION with replay / 2 harness error. VERIF_SEED seeds every random choice. "
                 "Known findings are in known_findings.json. ./check <ID> --replay FILE re-runs one case without Hypothesis.",
    }
    with open(os.path.join(HERE, "MANIFEST.json"), "w") as f:
        json.dump(man, f, indent=1)
    print(f"{len(checks)} checks, {len(na)} not_applicable")


if __name__ == "__main__":
    main()
