"""Known findings: genuine defects recorded rather than repaired.  File is committed, never written at run time.

known_findings.json: {"findings": [ {"id", "property", "status": "open"|"fixed", "what", "predicate", "params"?,
                                      "replay"?, "commit"?} ]}
An *open* entry suppresses exactly the failures its predicate (a function named in the property module's
FINDING_PREDICATES) matches and produces one KNOWN-FINDING line.  A *fixed* entry suppresses nothing.
"""
import json
import os

HERE = os.path.dirname(os.path.dirname(os.path.abspath(__file__)))
PATH = os.path.join(HERE, "known_findings.json")


def load(prop_id=None):
    if not os.path.exists(PATH):
        return []
    with open(PATH) as f:
        data = json.load(f)
    out = data.get("findings", [])
    if prop_id:
        out = [e for e in out if e["property"] == prop_id]
    return out


def match(mod, entries, case, violation):
    """Return the id of the open finding that matches this failure, else None."""
    preds = getattr(mod, "FINDING_PREDICATES", {})
    for e in entries:
        if e.get("status") != "open":
            continue
        fn = preds.get(e["predicate"])
        if fn is None:
            continue
        try:
            if fn(case, violation, **(e.get("params") or {})):
                return e["id"]
        except Exception:
            continue
    return None
