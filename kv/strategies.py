"""Hypothesis strategies.  Construction, not rejection; every case is JSON-serialisable."""
from __future__ import annotations
from fractions import Fraction
from itertools import combinations

from hypothesis import strategies as st

from .core import fstr

SIGN = st.sampled_from([1, -1, 0])


def pc(k):
    return bin(k).count("1")


@st.composite
def signatures(draw, dmin=0, dmax=4, dweights=None):
    ds = list(range(dmin, dmax + 1))
    d = draw(st.sampled_from(dweights or ds))
    kind = draw(st.sampled_from(["any", "any", "euclid", "degenerate", "negative", "null2"]))
    if kind == "euclid":
        return [1] * d
    sig = [draw(SIGN) for _ in range(d)]
    if kind == "degenerate" and d:
        sig[draw(st.integers(0, d - 1))] = 0
    if kind == "negative" and d:
        sig[draw(st.integers(0, d - 1))] = -1
    if kind == "null2" and d >= 2:
        i = draw(st.integers(0, d - 2))
        sig[i] = 0
        sig[draw(st.integers(i + 1, d - 1))] = 0
    return sig


@st.composite
def custom_basis(draw, d, start, odd_bias=True):
    """An admissible custom basis: generator order x per-blade spelling x order within each grade."""
    gens = [format(start + j, "x") for j in range(d)]
    if draw(st.integers(0, 4)) == 0:
        # a basis that LOOKS like the default one (generators ascending, every grade sorted lexicographically) but spells some
        # blades with an odd permutation (e21, e132): code that detects custom bases by their order must not miss it
        basis = ["e"] + ["e" + g for g in gens]
        for g in range(2, d + 1):
            blades = []
            for comb in combinations(gens, g):
                sp = list(comb)
                if draw(st.booleans()):
                    sp = list(draw(st.permutations(sp)))
                blades.append("e" + "".join(sp))
            basis.extend(sorted(blades))
        return basis
    gens = list(draw(st.permutations(gens)))
    basis = ["e"]
    for g in range(1, d + 1):
        blades = []
        for comb in combinations(gens, g):
            if g == 1:
                blades.append("e" + comb[0])
            else:
                sp = draw(st.permutations(list(comb)))
                blades.append("e" + "".join(sp))
        if g > 1:
            blades = list(draw(st.permutations(blades)))
        basis.extend(blades)
    return basis


NAMED = {
    "2DPGA": ([0, 1, 1], ["e", "e1", "e2", "e0", "e20", "e01", "e12", "e012"]),
    "3DPGA": ([0, 1, 1, 1], ["e", "e1", "e2", "e3", "e0", "e01", "e02", "e03", "e12", "e31", "e23",
                             "e032", "e013", "e021", "e123", "e0123"]),
    "STAP": ([0, 1, 1, 1, -1], ["e", "e0", "e1", "e2", "e3", "e4",
                                "e01", "e02", "e03", "e40", "e12", "e31", "e23", "e41", "e42", "e43",
                                "e234", "e314", "e124", "e123", "e014", "e024", "e034", "e032", "e013", "e021",
                                "e0324", "e0134", "e0214", "e0123", "e1234", "e01234"]),
}


@st.composite
def configs(draw, dmin=0, dmax=4, custom=0.0, starts=(None, 0, 1, 2), named=False, dweights=None):
    """Algebra configuration dict {"sig", "start", "basis"}.  `custom` = probability-ish weight of custom bases."""
    if named and draw(st.integers(0, 9)) == 0:
        name = draw(st.sampled_from(sorted(n for n in NAMED if dmin <= len(NAMED[n][0]) <= dmax) or ["2DPGA"]))
        sig, basis = NAMED[name]
        if dmin <= len(sig) <= dmax:
            return {"sig": list(sig), "start": None, "basis": list(basis), "named": name}
    sig = draw(signatures(dmin, dmax, dweights))
    start = draw(st.sampled_from(list(starts)))
    cfg = {"sig": sig, "start": start, "basis": None}
    if custom and len(sig) >= 1 and draw(st.integers(0, 99)) < custom * 100:
        s = start if start is not None else (0 if sig.count(0) == 1 else 1)
        cfg["basis"] = draw(custom_basis(len(sig), s))
        cfg["start"] = None   # derived from the basis by the constructor
        # metric is indexed by generator name - start
    return cfg


KEY_CLASSES = (["empty"] + ["single"] * 2 + ["sparse"] * 5 + ["gradeblock"] * 2 + ["puregrade"] * 3 + ["fullcanon", "fullbin"]
               + ["perm"] * 4)


def _bits(k):
    return tuple(j for j in range(k.bit_length()) if k >> j & 1)


def canon_sorted(keys):
    """Canonical order of a DEFAULT basis: by grade, then by blade name, i.e. lexicographic in the generator sequence
    (for d >= 4 this differs from numeric order: e14 (9) comes before e23 (6))."""
    return tuple(sorted(keys, key=lambda k: (pc(k), _bits(k))))


@st.composite
def key_tuples(draw, d, classes=None, max_len=None, min_len=0):
    """Ordered tuple of distinct blade bitmasks with a class label -> (label, [keys])."""
    n = 2 ** d
    cls = draw(st.sampled_from(classes or KEY_CLASSES))
    allk = list(range(n))
    if cls == "empty" and min_len == 0:
        return cls, []
    if cls == "single" or (cls == "empty" and min_len > 0):
        return "single", [draw(st.integers(0, n - 1))]
    if cls == "fullcanon":
        ks = list(canon_sorted(allk))
    elif cls == "fullbin":
        ks = allk
    elif cls == "puregrade":
        # a (sub)set of the blades of ONE grade: vectors, bivectors, ... as users build them
        g = draw(st.integers(0, d))
        blades = [k for k in canon_sorted(allk) if pc(k) == g]
        idx = draw(st.lists(st.integers(0, len(blades) - 1), unique=True, min_size=1, max_size=len(blades)))
        ks = [blades[i] for i in (sorted(idx) if draw(st.integers(0, 3)) else idx)]
    elif cls == "gradeblock":
        gs = draw(st.sets(st.integers(0, d), min_size=1, max_size=d + 1))
        ks = list(canon_sorted(k for k in allk if pc(k) in gs))
    else:
        dens = draw(st.sampled_from([0.2, 0.5, 0.8]))
        size = max(1, min(n, round(dens * n)))
        ks = draw(st.lists(st.integers(0, n - 1), unique=True, min_size=max(1, min_len), max_size=max(size, min_len, 1)))
        if cls == "sparse":
            ks = list(canon_sorted(ks))
        # cls == "perm": keep drawn (arbitrary) order
    if max_len is not None and len(ks) > max_len:
        # truncate by construction (keeps class label meaningful except for "full*")
        idx = draw(st.lists(st.integers(0, len(ks) - 1), unique=True, min_size=max_len, max_size=max_len))
        ks = [ks[i] for i in sorted(idx)]
        cls = cls + "-cut"
    if cls.startswith("perm") and ks == list(canon_sorted(ks)) and len(ks) > 1:
        ks = ks[::-1]
    return cls, [int(k) for k in ks]


SMALL_FRACS = [Fraction(n, d) for n in range(-5, 6) for d in (1, 2, 3)]


@st.composite
def fracs(draw, zero_prob=0.12, nonzero=False):
    if not nonzero and draw(st.integers(0, 99)) < zero_prob * 100:
        return "0"
    n = draw(st.integers(1, 7)) * draw(st.sampled_from([1, -1]))
    dd = draw(st.sampled_from([1, 1, 2, 3, 5]))
    return fstr(Fraction(n, dd))


@st.composite
def frac_values(draw, nkeys, zero_prob=0.12):
    return [draw(fracs(zero_prob)) for _ in range(nkeys)]


TYPED_KINDS = ["int", "int", "float", "complex", "bool", "np.int64", "np.float64", "Fraction", "special"]


@st.composite
def typed_values(draw, n):
    """Coefficient lists of one Python / numpy number type, with the special values 0, 1, -1 and repeated values over-represented
    (call-time shortcuts on particular values or types).  Encoded as {"t": kind, "v": [...]} with JSON-able entries."""
    kind = draw(st.sampled_from(TYPED_KINDS))
    if kind == "special":
        kind = draw(st.sampled_from(["int", "float", "Fraction"]))
        vals = [draw(st.sampled_from([0, 1, -1, 1, 2, 0])) for _ in range(n)]
        if n and draw(st.booleans()):
            vals = [vals[0]] * n          # all coefficients equal
    elif kind == "bool":
        vals = [draw(st.sampled_from([0, 1])) for _ in range(n)]
    elif kind in ("int", "np.int64"):
        vals = [draw(st.integers(-4, 4)) for _ in range(n)]
    else:
        vals = [draw(st.sampled_from([-3, -2, -1, 0, 1, 2, 3])) * draw(st.sampled_from([1, 1, 2])) for _ in range(n)]   # halves
    im = [draw(st.integers(-2, 2)) for _ in range(n)] if kind == "complex" else None
    return {"t": kind, "v": vals, "im": im}


def decode_typed(tv):
    """-> list of numbers of the requested type (floats/Fractions are halves of the stored ints, exactly representable)."""
    import numpy as np
    t, v = tv["t"], tv["v"]
    if t == "int":
        return [int(x) for x in v]
    if t == "bool":
        return [bool(x) for x in v]
    if t == "float":
        return [x / 2 for x in v]
    if t == "Fraction":
        return [Fraction(x, 2) for x in v]
    if t == "complex":
        return [complex(x / 2, y) for x, y in zip(v, tv["im"])]
    if t == "np.int64":
        return [np.int64(x) for x in v]
    if t == "np.float64":
        return [np.float64(x / 2) for x in v]
    raise KeyError(t)


@st.composite
def operand(draw, d, classes=None, max_len=None, min_len=0, zero_prob=0.12):
    """{"cls", "keys", "vals", "tvals"}: Fraction values encoded as strings, plus typed values for the 'typed' mode."""
    from . import values as V
    cls, ks = draw(key_tuples(d, classes, max_len, min_len))
    return {"cls": cls, "keys": ks, "vals": draw(frac_values(len(ks), zero_prob)), "tvals": draw(V.typed(len(ks)))}


def is_canonical(keys):
    return list(keys) == list(canon_sorted(keys))
