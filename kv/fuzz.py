"""Coverage-guided campaign (atheris / libFuzzer) over a property's own Hypothesis generator and oracle.

usage: python -m kv.fuzz <ID> <tier> <seed> <runs> <outfile>

The bytes libFuzzer mutates are decoded by Hypothesis (`test.hypothesis.fuzz_one_input`) into a case of the property's
generator, so the fuzzer reaches the logic instead of dying in input validation; the semantic oracle (evaluate) runs inside
the target.  kingdon is imported under atheris' bytecode instrumentation so that coverage of the code under test guides
the search.  libFuzzer never returns from Fuzz(), therefore the partial result file (same format as a kv.shard result) is
rewritten every 200 executions and at the first violation.  A campaign is only approximately reproducible from -seed; the
saved failing case (JSON) is the reproducible unit and is replayed by `./check <ID> --replay`.
"""
from __future__ import annotations
import importlib
import json
import os
import sys
import time
import traceback

HERE = os.path.dirname(os.path.dirname(os.path.abspath(__file__)))
DEPS = os.path.join(HERE, ".deps")
if DEPS not in sys.path:
    sys.path.insert(0, DEPS)


def main(argv):
    pid, tier, seed, runs, out = argv[1], argv[2], int(argv[3]), int(argv[4]), argv[5]
    try:
        import atheris
    except Exception as e:      # not installed: the campaign is skipped and reported as such, never a pass-by-silence
        with open(out, "w") as f:
            json.dump({"shard": 99, "evaluations": 0, "generated": 0, "enumerated": 0, "replayed": 0, "nontrivial": [], "allcases": [],
                       "labels": {}, "counters": {"atheris_unavailable": 1}, "samples": [], "known": {}, "excluded": {}, "violations": [],
                       "harness_error": None, "skipped_budget": 0, "slowest": [], "wall": 0, "fuzz": True}, f)
        return
    with atheris.instrument_imports(include=["kingdon"]):
        from . import kd  # noqa: F401  imports kingdon instrumented
    from .core import Violation, jsonable
    from .shard import Shard
    from hypothesis import given, settings, HealthCheck
    mod = importlib.import_module(f"kv.props.{pid.lower()}")
    sh = Shard(mod, tier, seed, 99, 100)
    state = {"n": 0, "stop": False}

    def flush():
        res = sh.result()
        res["fuzz"] = True
        res["generated"] = state["n"]
        tmp = out + ".tmp"
        with open(tmp, "w") as f:
            json.dump(res, f)
        os.replace(tmp, out)

    @settings(database=None, deadline=None, suppress_health_check=list(HealthCheck), max_examples=1)
    @given(mod.cases(tier))
    def test(case):
        if state["stop"]:
            return
        state["n"] += 1
        before = len(sh.violations)
        sh.run_plain(case, "atheris")
        if sh.harness_error:
            state["stop"] = True
            flush()
            raise RuntimeError("harness error inside fuzz target")
        if len(sh.violations) > before:
            flush()
            raise AssertionError("violation: " + json.dumps(sh.violations[-1]["violation"])[:500])
        if state["n"] % 200 == 0:
            flush()

    corpus = os.path.join(os.path.dirname(out), f"corpus-{pid}")
    os.makedirs(corpus, exist_ok=True)
    flush()
    args = [sys.argv[0], f"-runs={runs}", f"-seed={seed or 1}", f"-max_total_time={int(sh.wall * 0.8)}", "-max_len=4096", "-len_control=0", "-print_final_stats=0", "-verbosity=0",
            f"-artifact_prefix={os.path.dirname(out)}/", corpus]
    atheris.Setup(args, test.hypothesis.fuzz_one_input)
    try:
        atheris.Fuzz()
    finally:
        flush()


if __name__ == "__main__":
    main(sys.argv)
