"""Adapters between harness-side data (configs, dict elements) and kingdon objects.

Importing this module imports kingdon from $KV_REPO (default /repo) and verifies that this is really the tree under
test; otherwise HarnessError.
"""
from __future__ import annotations
import os
import sys
import warnings
from fractions import Fraction

from .core import HarnessError, Violation, jsonable

KV_REPO = os.path.realpath(os.environ.get("KV_REPO", "/repo"))
if KV_REPO not in sys.path:
    sys.path.insert(0, KV_REPO)

warnings.simplefilter("ignore")

import kingdon  # noqa: E402
from kingdon import Algebra, MultiVector  # noqa: E402

if not os.path.realpath(kingdon.__file__).startswith(KV_REPO + os.sep):
    raise HarnessError(f"kingdon imported from {kingdon.__file__}, expected under {KV_REPO}")


def passthrough(f):
    """A semantics-preserving wrapper (stand-in for a JIT decorator): keeps __name__ like numba's dispatcher does."""
    def wrapped(*a):
        return f(*a)
    wrapped.__name__ = f.__name__
    wrapped.__wrapped__ = f
    return wrapped


def build_algebra(config, **override):
    """config: {"sig": [...], "start": int|None, "basis": [...]|None, "opts": {...}}"""
    import sympy
    opts = dict(config.get("opts") or {})
    opts.update(override)
    kw = {}
    named = config.get("named")
    if named:
        pass
    elif config.get("pqr") is not None:
        p, q, r = config["pqr"]
        kw.update(p=p, q=q, r=r)
    else:
        kw["signature"] = list(config["sig"])
    if config.get("start") is not None and not named:
        kw["start_index"] = config["start"]
    if config.get("basis") and not named:
        kw["basis"] = list(config["basis"])
    if "cse" in opts:
        kw["cse"] = bool(opts["cse"])
    if opts.get("graded"):
        kw["graded"] = True
    if opts.get("symcls") == "sympy":
        kw["codegen_symbolcls"] = sympy.Symbol
    elif opts.get("symcls") == "poly":
        from kingdon.polynomial import Polynomial
        kw["codegen_symbolcls"] = Polynomial.fromname          # division-free operators only
    elif opts.get("symcls") == "ratpoly":
        from kingdon.polynomial import RationalPolynomial
        kw["codegen_symbolcls"] = RationalPolynomial.fromname  # the default, given explicitly
    if opts.get("wrapper"):
        kw["wrapper"] = passthrough
    if opts.get("pretty_blade"):
        kw["pretty_blade"] = opts["pretty_blade"]
    if named:
        return Algebra.fromname(named, **kw)
    form = config.get("ctor") or ctor_form(config)
    CTOR_COUNTS[form] = CTOR_COUNTS.get(form, 0) + 1
    _sibling_first(kw)
    if form == "ndarray" and "signature" in kw:
        # the signature handed over as an ndarray which the caller re-uses (overwrites in place) afterwards
        import numpy as np
        buf = np.array(kw["signature"], dtype=int)
        kw["signature"] = buf
        alg = Algebra(**kw)
        buf[:] = [(-v if v else 1) for v in buf][::-1]
        return alg
    if form == "replace" and "signature" in kw:
        # derived from an algebra of another signature through the dataclass machinery
        import dataclasses
        sig = kw.pop("signature")
        other = [-v for v in sig][::-1]
        base = Algebra(signature=other, **kw)
        # start_index and basis as the caller states them (None / empty = derive the defaults again)
        return dataclasses.replace(base, signature=list(sig), start_index=kw.get("start_index"), basis=list(kw.get("basis") or []))
    return Algebra(**kw)


CTOR_COUNTS = {}


def _sibling_first(kw):
    """Another algebra of the same signature and start index but with the OTHER basis spelling is created (and used once) just
    before the algebra a check asks for: the plain one before every custom-basis algebra, one with every blade spelled backwards
    (e21, e321) before 1 in 5 plain ones (d <= 6; a pure function of the signature).  Algebras are independent objects, so this
    changes nothing on a correct tree; anything shared between algebras at module level but keyed by less than the full
    configuration (seeded C09-11: sign tables cached per signature) then reaches the independent oracles of every check."""
    sig = kw.get("signature")
    if sig is None or not 2 <= len(sig) <= 6:
        return
    sig = [int(v) for v in sig]
    base = {"signature": list(sig)}
    if kw.get("start_index") is not None:
        base["start_index"] = kw["start_index"]
    if kw.get("basis"):
        sib = Algebra(**base)
        CTOR_COUNTS["sibling:plain-first"] = CTOR_COUNTS.get("sibling:plain-first", 0) + 1
    elif sum((i + 3) * (v + 2) for i, v in enumerate(sig)) % 5 == 0:
        names = list(Algebra(**base).canon2bin)
        sib = Algebra(basis=[n[0] + n[1:][::-1] for n in names], **base)
        CTOR_COUNTS["sibling:custom-first"] = CTOR_COUNTS.get("sibling:custom-first", 0) + 1
    else:
        return
    e = sib.blades[list(sib.canon2bin)[-1]]
    e * e


def ctor_form(config):
    """How the algebra object is obtained -- a pure function of the config, so replays are stable and no strategy changes:
    5 in 7 plainly, 1 in 7 from an ndarray signature that the caller overwrites afterwards, 1 in 7 via dataclasses.replace from
    an algebra with another signature."""
    if config.get("named") or config.get("pqr") is not None or not config.get("sig"):
        return "plain"
    h = (sum((i + 2) * (v + 2) for i, v in enumerate(config["sig"])) + (config.get("start") or 0) + len(config.get("basis") or ())) % 7
    return {0: "ndarray", 1: "replace"}.get(h, "plain")


def mk(alg, keys, values):
    """Build a multivector through the public constructor from ordered keys and values."""
    import numpy as np
    keys = tuple(keys)
    if not isinstance(values, np.ndarray):
        values = list(values)
    if not keys:
        return alg.multivector(keys=(), values=[])
    return alg.multivector(keys=keys, values=values)


def mk_raw(alg, keys, values):
    """fromkeysvalues without copying/converting: an ndarray stays one ndarray (ndarray-backed multivector)."""
    import numpy as np
    return MultiVector.fromkeysvalues(alg, tuple(keys), values if isinstance(values, np.ndarray) else list(values))


def sym_call(alg, fn, operands, how="keyword"):
    """Evaluate fn on SYMBOLIC operands and then call the symbolic result with numbers.  operands: [(name, keys, values)];
    each becomes alg.multivector(name=name, keys=keys) (symbols name+blade suffix: a1, a2, a12 ...).  The result is called
    with keyword arguments {symbol name: value} (how="keyword") or positionally in name order; returns what the call returns
    (the symbolic result itself if it has no free symbols)."""
    mvs, binding = [], {}
    for name, keys, values in operands:
        m = alg.multivector(name=name, keys=tuple(keys)) if keys else alg.multivector(keys=(), values=[])
        for sym, val in zip(m.values(), values):
            binding[str(sym)] = val
        mvs.append(m)
    r = fn(*mvs)
    if not isinstance(r, MultiVector):
        return r
    free = sorted(str(s_) for s_ in r.free_symbols)
    if not free:
        return r
    if how == "keyword":
        return r(**{n: binding[n] for n in free})
    return r(*[binding[n] for n in free])


def to_dict(x, alg=None, what="result", op="?"):
    """Observe a kingdon result as dict{bitmask: coefficient}.  Duplicate keys / length mismatch are violations of
    every property (the element would be ambiguous).  A bare number is the scalar element."""
    if isinstance(x, MultiVector):
        keys = tuple(x.keys())
        vals = x.values()
        try:
            n = len(vals)
        except TypeError:
            raise Violation("well-formed-result", op, f"{what}: values container has no len: {type(vals).__name__}")
        if n != len(keys):
            raise Violation("well-formed-result", op, f"{what}: {len(keys)} keys but {n} values",
                            keys=list(keys))
        if len(set(keys)) != len(keys):
            raise Violation("well-formed-result", op, f"{what}: duplicate keys {keys}", keys=list(keys))
        return dict(zip(keys, vals))
    return {0: x}


def is_exact(v):
    from .ring import Q
    return isinstance(v, (int, Fraction, Q)) and not isinstance(v, bool)


def elem_equal(got: dict, exp: dict, tol=None):
    """Compare two elements (dict{key: coeff}).  Exact when both sides are exact, else relative tolerance over the
    union of the key sets.  Returns (ok, description)."""
    keys = sorted(set(got) | set(exp))
    exact = all(is_exact(v) for v in list(got.values()) + list(exp.values()))
    if exact and tol is None:
        for k in keys:
            g, e = got.get(k, 0), exp.get(k, 0)
            if not (g == e):
                return False, f"blade {k}: got {g!r}, expected {e!r}"
        return True, ""
    tol = 1e-9 if tol is None else tol
    import numpy as np
    scale = 1.0
    for v in exp.values():
        try:
            scale = max(scale, float(np.max(np.abs(np.asarray(_num(v), dtype=complex)))))
        except Exception:
            pass
    for k in keys:
        g, e = _num(got.get(k, 0)), _num(exp.get(k, 0))
        try:
            diff = np.max(np.abs(np.asarray(g, dtype=complex) - np.asarray(e, dtype=complex)))
        except Exception as ex:  # not numeric
            return False, f"blade {k}: not comparable ({type(got.get(k)).__name__} vs {type(exp.get(k)).__name__}): {ex}"
        if not (diff <= tol * scale):
            return False, f"blade {k}: got {got.get(k, 0)!r}, expected {exp.get(k, 0)!r} (|diff|={diff:.3g}, tol={tol * scale:.3g})"
    return True, ""


def plain(v):
    """sympy numbers -> Fraction / float / complex (other values unchanged)."""
    if hasattr(v, "is_Rational") and hasattr(v, "free_symbols"):
        if v.is_Rational:
            return Fraction(int(v.p), int(v.q))
        if not v.free_symbols:
            return complex(v) if v.is_real is False else float(v)
    return v


def _num(v):
    if isinstance(v, Fraction):
        return float(v)
    return v


def show(m: dict):
    return {str(k): jsonable(v) for k, v in sorted(m.items())}
