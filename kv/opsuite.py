"""Uniform access to kingdon operators and their reference counterparts (used by several properties)."""
from __future__ import annotations
from fractions import Fraction as F

from .refops import R, clean, pc

BINARY = ["gp", "op", "ip", "lc", "rc", "sp", "cp", "acp", "add", "sub", "rp", "sw", "proj", "div"]
UNARY = ["neg", "reverse", "involute", "conjugate", "normsq", "hodge", "unhodge", "polarity", "unpolarity", "inv",
         "outerexp", "outersin", "outercos", "outertan", "sqrt"]
EXACT_BINARY = ["gp", "op", "ip", "lc", "rc", "sp", "cp", "acp", "add", "sub", "rp", "sw", "proj"]
EXACT_UNARY = ["neg", "reverse", "involute", "conjugate", "normsq", "hodge", "unhodge", "polarity", "unpolarity"]
INFIX = {"gp": "*", "op": "^", "ip": "|", "rp": "&", "sw": ">>", "proj": "@", "add": "+", "sub": "-", "div": "/"}


class RefUndefined(Exception):
    """The reference says the operation has no value (e.g. singular operand, degenerate polarity)."""


def k_apply(op, x, y=None):
    """Call a kingdon operator in method form."""
    if y is None:
        return getattr(x, op)()
    return getattr(x, op)(y)


def k_apply_infix(op, x, y):
    import operator as o
    fn = {"gp": o.mul, "op": o.xor, "ip": o.or_, "rp": o.and_, "sw": o.rshift, "proj": o.matmul, "add": o.add,
          "sub": o.sub, "div": o.truediv}[op]
    return fn(x, y)


def r_apply(Rr: R, op, a, b=None):
    """Reference value of an operator on dict elements; raises RefUndefined where no value exists."""
    if op in ("gp", "op", "ip", "lc", "rc", "sp", "cp", "acp", "add", "sub", "rp", "sw", "proj"):
        return getattr(Rr, op)(a, b)
    if op == "div":
        bi = Rr.inv(clean(b))
        if bi is None:
            raise RefUndefined("divisor singular")
        return Rr.gp(a, bi)
    if op in ("neg", "reverse", "involute", "conjugate", "normsq", "hodge", "unhodge", "unpolarity"):
        return getattr(Rr, op)(a)
    if op == "polarity":
        r = Rr.polarity(a)
        if r is None:
            raise RefUndefined("pseudoscalar not invertible")
        return r
    if op == "inv":
        r = Rr.inv(clean(a))
        if r is None:
            raise RefUndefined("singular")
        return r
    if op in ("outerexp", "outersin", "outercos", "outertan"):
        terms = Rr.outerexp_terms(a)
        tot = {}
        if op == "outerexp":
            sel = terms
        elif op == "outersin":
            sel = terms[1::2]
        else:
            sel = terms[0::2]
        if op == "outertan":
            s, c = {}, {}
            for t in terms[1::2]:
                s = Rr.add(s, t)
            for t in terms[0::2]:
                c = Rr.add(c, t)
            ci = Rr.inv(clean(c))
            if ci is None:
                raise RefUndefined("outercos singular")
            return Rr.gp(s, ci)
        for t in sel:
            tot = Rr.add(tot, t)
        return tot
    raise KeyError(op)
