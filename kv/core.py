"""Core types shared by every property module."""
from __future__ import annotations
import hashlib
import json
from fractions import Fraction


class Violation(Exception):
    """The code under test broke a clause of the property.

    clause : short stable name of the clause of the property statement that failed
    op     : operator / API entry involved (used for bucketing by root cause)
    detail : human readable description
    data   : JSON-serialisable extra (observed / expected elements, ...)
    """

    def __init__(self, clause, op, detail, **data):
        super().__init__(f"{clause} [{op}]: {detail}")
        self.clause = clause
        self.op = op
        self.detail = detail
        self.data = data

    def bucket(self):
        return f"{self.clause}|{self.op}|{self.data.get('exc', 'value')}"

    def to_json(self):
        return {"clause": self.clause, "op": self.op, "detail": self.detail,
                "data": jsonable(self.data)}


class HarnessError(Exception):
    """Something in the verification machinery itself went wrong (exit 2, never a VIOLATION)."""


class Info:
    """What evaluate() returns for a case that held."""
    __slots__ = ("nontrivial", "labels", "key", "counters", "sample", "units")

    def __init__(self, nontrivial=False, labels=(), key=None, counters=None, sample=None, units=None):
        self.nontrivial = bool(nontrivial)
        self.labels = tuple(labels)
        self.key = key            # hashable/JSON-able identity of the case for distinct counting
        self.counters = counters or {}
        self.sample = sample      # optional extra to show in evidence samples
        # optional: a case that bundles several independent sub-checks (e.g. many blade pairs of one algebra) lists them
        # here as (key, nontrivial) so that distinct counting is per sub-check, not per bundle
        self.units = units


def jsonable(x):
    """Best-effort conversion of observation data to JSON-serialisable values."""
    if isinstance(x, (str, int, bool)) or x is None:
        return x
    if isinstance(x, float):
        return x if x == x and abs(x) != float("inf") else repr(x)
    if isinstance(x, Fraction):
        return f"{x.numerator}/{x.denominator}"
    if isinstance(x, dict):
        return {str(k): jsonable(v) for k, v in x.items()}
    if isinstance(x, (list, tuple, set, frozenset)):
        return [jsonable(v) for v in x]
    return repr(x)[:300]


def case_hash(obj) -> str:
    s = json.dumps(jsonable(obj), sort_keys=True, separators=(",", ":"))
    return hashlib.sha1(s.encode()).hexdigest()[:16]


def frac(s):
    """Parse the 'n/d' (or int / float) value encoding used in cases."""
    if isinstance(s, (int, Fraction)):
        return Fraction(s)
    if isinstance(s, float):
        return Fraction(s)
    return Fraction(s)


def fstr(x: Fraction) -> str:
    x = Fraction(x)
    return f"{x.numerator}/{x.denominator}" if x.denominator != 1 else str(x.numerator)
