"""Parent process of a property check: forks shards, merges results, writes evidence, prints the verdict.

Exit codes: 0 held on everything explored (known findings are printed, not failures); 1 at least one violation not
listed in known_findings.json (one `VIOLATION property=<ID> replay=<path>` line each); 2 harness error.
"""
from __future__ import annotations
import argparse
import importlib
import json
import os
import shutil
import subprocess
import sys
import tempfile
import time

from .core import case_hash, Violation, jsonable
from . import findings

HERE = os.path.dirname(os.path.dirname(os.path.abspath(__file__)))
# KV_OUT redirects evidence/ and replays/ (used only by the sensitivity protocol so that runs against a scratch copy of
# the repository do not overwrite the evidence of runs against /repo)
OUT = os.environ.get("KV_OUT") or HERE


def child_env():
    env = dict(os.environ)
    env["PYTHONDONTWRITEBYTECODE"] = "1"
    env["PYTHONHASHSEED"] = "0"
    env["PYTHONPATH"] = HERE + (os.pathsep + env["PYTHONPATH"] if env.get("PYTHONPATH") else "")
    env.setdefault("OMP_NUM_THREADS", "1")
    env.setdefault("OPENBLAS_NUM_THREADS", "1")
    return env


def replay(pid, path):
    mod = importlib.import_module(f"kv.props.{pid.lower()}")
    with open(path) as f:
        data = json.load(f)
    case = data["case"]
    entries = findings.load(pid)
    # some failures need state left behind by earlier cases of the same process (module-level caches shared between Algebra
    # objects): the replay file then carries the minimal list of earlier cases as a prelude
    for pre in data.get("prelude") or []:
        try:
            mod.evaluate(pre)
        except Exception:
            pass
    try:
        mod.evaluate(case)
    except Violation as v:
        fid = findings.match(mod, entries, case, v)
        if fid:
            print(f"KNOWN-FINDING: property={pid} {fid}: {v}")
            return 0
        print(f"replay fails: {v}")
        print(json.dumps(v.to_json(), indent=1)[:4000])
        print(f"VIOLATION property={pid} replay={path}")
        return 1
    print(f"replay of {path} holds on this tree")
    return 0


def main(argv=None):
    ap = argparse.ArgumentParser(prog="check")
    ap.add_argument("property")
    ap.add_argument("--tier", default=os.environ.get("VERIF_TIER", "quick"), choices=["quick", "thorough"])
    ap.add_argument("--replay")
    ap.add_argument("--shards", type=int)
    ap.add_argument("--examples", type=int)
    args = ap.parse_args(argv)
    pid = args.property.upper()
    seed = int(os.environ.get("VERIF_SEED", "1") or 1)
    t0 = time.time()
    try:
        from . import kd  # noqa: F401  (verifies that kingdon comes from the tree under test)
        mod = importlib.import_module(f"kv.props.{pid.lower()}")
    except Exception as e:
        import traceback
        traceback.print_exc()
        print(f"HARNESS-ERROR property={pid}: cannot import machinery: {e}")
        return 2
    if args.replay:
        return replay(pid, args.replay)

    budget = mod.budget(args.tier)
    if args.examples:
        os.environ["KV_EXAMPLES"] = str(args.examples)
        budget = mod.budget(args.tier)
    nshards = args.shards or budget.get("shards", 8)
    ncpu = os.cpu_count() or 4
    nshards = max(1, min(nshards, ncpu))
    work = tempfile.mkdtemp(prefix=f"{pid}-", dir=_workdir())
    procs = []
    try:
        for s in range(nshards):
            out = os.path.join(work, f"shard{s}.json")
            log = open(os.path.join(work, f"shard{s}.log"), "w")
            p = subprocess.Popen([sys.executable, "-m", "kv.shard", pid, args.tier, str(seed), str(s), str(nshards), out],
                                 cwd=HERE, env=child_env(), stdout=log, stderr=subprocess.STDOUT)
            procs.append((p, out, log))
        fuzz_runs = budget.get("fuzz_runs", 0)
        if fuzz_runs:
            out = os.path.join(work, "fuzz.json")
            log = open(os.path.join(work, "fuzz.log"), "w")
            p = subprocess.Popen([sys.executable, "-m", "kv.fuzz", pid, args.tier, str(seed), str(fuzz_runs), out],
                                 cwd=HERE, env=child_env(), stdout=log, stderr=subprocess.STDOUT)
            procs.append((p, out, log))
        results = []
        hard_wall = budget.get("wall", 120 if args.tier == "quick" else 1200) * 3 + 600
        for p, out, log in procs:
            try:
                p.wait(timeout=max(60, hard_wall - (time.time() - t0)))
            except subprocess.TimeoutExpired:
                p.kill()
            log.close()
            if os.path.exists(out):
                with open(out) as f:
                    results.append(json.load(f))
            else:
                with open(log.name) as f:
                    tail = f.read()[-3000:]
                results.append({"harness_error": f"shard produced no result (killed or crashed):\n{tail}", "evaluations": 0,
                                "nontrivial": [], "labels": {}, "counters": {}, "samples": [], "known": {},
                                "excluded": {}, "violations": [], "generated": 0, "enumerated": 0, "replayed": 0,
                                "skipped_budget": 0, "wall": 0})
    finally:
        shutil.rmtree(work, ignore_errors=True)
    return conclude(mod, pid, args.tier, seed, nshards, results, time.time() - t0)


def _fresh_replay(pid, rec, path):
    """Does the replay (with its prelude, if any) fail in a fresh interpreter?"""
    with open(path, "w") as f:
        json.dump(rec, f)
    p = subprocess.run([sys.executable, "-m", "kv.runner", pid, "--replay", path], cwd=HERE, env=child_env(),
                       capture_output=True, text=True, timeout=600)
    return p.returncode == 1 or "KNOWN-FINDING" in p.stdout


def _selfcontained(pid, rec, context, path):
    """Make the replay file reproduce on its own: if the shrunk case alone passes in a fresh process, find a minimal prelude
    among the cases evaluated before it in the failing shard (delta debugging, each probe in a fresh interpreter)."""
    try:
        if _fresh_replay(pid, rec, path):
            return {"reproduces_in_fresh_process": True}
        if not context:
            return {"reproduces_in_fresh_process": False}
        pre = list(context)
        if not _fresh_replay(pid, dict(rec, prelude=pre), path):
            return {"reproduces_in_fresh_process": False}
        # ddmin-style reduction (bounded by wall time: every probe is a fresh interpreter evaluating the candidate prelude)
        t_end = time.time() + 300
        probes, n = 0, 2
        while len(pre) >= 2 and time.time() < t_end:
            chunk = max(1, len(pre) // n)
            reduced = False
            for i in range(0, len(pre), chunk):
                cand = pre[:i] + pre[i + chunk:]
                probes += 1
                if cand and _fresh_replay(pid, dict(rec, prelude=cand), path):
                    pre, n, reduced = cand, max(n - 1, 2), True
                    break
                if time.time() >= t_end:
                    break
            if not reduced:
                if chunk == 1:
                    break
                n = min(len(pre), n * 2)
        return {"reproduces_in_fresh_process": True, "prelude": pre}
    except Exception as e:   # never let the convenience step hide the violation
        return {"reproduces_in_fresh_process": None, "selfcontained_error": repr(e)}


def _workdir():
    d = os.path.join(HERE, ".work")
    os.makedirs(d, exist_ok=True)
    return d


def conclude(mod, pid, tier, seed, nshards, results, wall):
    evaluations = sum(r["evaluations"] for r in results)
    nontrivial = set()
    allcases = set()
    labels, counters, known, excluded = {}, {}, {}, {}
    samples, violations, herrs = [], [], []
    for r in results:
        nontrivial.update(r["nontrivial"])
        allcases.update(r.get("allcases", []))
        for dst, src in ((labels, r["labels"]), (counters, r["counters"]), (known, r["known"]), (excluded, r["excluded"])):
            for k, v in src.items():
                dst[k] = dst.get(k, 0) + v
        violations.extend(r["violations"])
        if r.get("harness_error"):
            herrs.append(r["harness_error"])
    # interleave samples from shards, nontrivial first
    pools = [list(r["samples"]) for r in results]
    while any(pools) and len(samples) < 8:
        for p in pools:
            if p and len(samples) < 8:
                samples.append(p.pop(0))
    # one violation per bucket across shards
    seen = set()
    uniq = []
    for v in violations:
        b = v["violation"]["clause"] + "|" + v["violation"]["op"] + "|" + str(v["violation"]["data"].get("exc", "value"))
        if b in seen:
            continue
        seen.add(b)
        uniq.append(v)
    # known findings lines
    entries = {e["id"]: e for e in findings.load(pid)}
    for fid, n in sorted(known.items()):
        print(f"KNOWN-FINDING: property={pid} {fid}: {entries.get(fid, {}).get('what', '')} (matched {n} generated cases, excluded so the search continues)")
    # replay files
    vlines = []
    if uniq:
        rdir = os.path.join(OUT, "replays", pid)
        os.makedirs(rdir, exist_ok=True)
        for v in uniq:
            path = os.path.join(rdir, case_hash([v["case"], v["violation"]["clause"]]) + ".json")
            rec = {"property": pid, "case": v["case"], "violation": v["violation"], "source": v["source"], "seed": seed, "tier": tier}
            rec.update(_selfcontained(pid, rec, v.get("context") or [], path))
            with open(path, "w") as f:
                json.dump(rec, f, indent=1)
            if rec.get("prelude"):
                print(f"note: this failure needs process state; the replay carries a prelude of {len(rec['prelude'])} earlier case(s)")
            elif rec.get("reproduces_in_fresh_process") is False:
                print("note: confirmed twice inside the shard process but not from the replay alone nor with the recorded context")
            print(f"violation: {v['violation']['clause']} [{v['violation']['op']}] {v['violation']['detail'][:600]}")
            print(f"  case: {json.dumps(v['case'])[:1200]}")
            vlines.append(f"VIOLATION property={pid} replay={path}")
    # required label distribution (vacuity guard)
    req = getattr(mod, "REQUIRED_LABELS", {})
    # fractions are taken over the GENERATED (Hypothesis) cases: enumerated sub-spaces and regress replays have a fixed
    # composition and, in the thorough tier, can outnumber the generated cases many times
    gen_total = sum(r["generated"] for r in results)
    if gen_total >= 200 and not herrs:
        for lab, frac in req.items():
            if labels.get(lab, 0) < frac * gen_total:
                herrs.append(f"generator vacuity guard: label {lab!r} seen {labels.get(lab, 0)} times in {gen_total} generated cases (< {frac:.1%})")
    if len(nontrivial) < 2 and not herrs and not uniq:
        herrs.append(f"only {len(nontrivial)} distinct non-trivial cases: check is vacuous")
    ev = {
        "property_id": pid, "tier": tier, "seed": seed, "level": "exploration",
        "coverage": {
            "evaluations": evaluations,
            "distinct_nontrivial": len(nontrivial),
            "distinct_cases": len(allcases),
            "rule": mod.RULE,
            "samples": samples,
            "generated": sum(r["generated"] for r in results),
            "enumerated": sum(r["enumerated"] for r in results),
            "regress_replayed": sum(r["replayed"] for r in results),
            "labels": dict(sorted(labels.items())),
            "counters": dict(sorted(counters.items())),
            "known_findings_excluded": known,
            "buckets_excluded_after_first_report": excluded,
            "skipped_by_wall_budget": sum(r["skipped_budget"] for r in results),
            "shards": nshards,
            "atheris_campaign": {"runs_requested": getattr(mod, "budget")(tier).get("fuzz_runs", 0),
                                 "executions": sum(r.get("generated", 0) for r in results if r.get("fuzz")),
                                 "note": "coverage-guided libFuzzer campaign over the same generator and oracle "
                                         "(hypothesis.fuzz_one_input); approximately reproducible from -seed, failing case saved as JSON"},
            "slowest_cases_s": sorted([e for r in results for e in r.get("slowest", [])], key=lambda e: -e[0])[:3],
            "exhaustive": False,
            "exhaustive_subspaces": getattr(mod, "EXHAUSTIVE_SUBSPACES", {}).get(tier, []),
            "tolerance": getattr(mod, "TOLERANCE", "exact (Fraction / generic ring); 1e-9 relative where floats enter"),
        },
        "assumptions": list(mod.ASSUMPTIONS),
        "wall_s": round(wall, 2),
        "violations": len(uniq),
    }
    os.makedirs(os.path.join(OUT, "evidence"), exist_ok=True)
    with open(os.path.join(OUT, "evidence", f"{pid}.json"), "w") as f:
        json.dump(ev, f, indent=1)
    print(f"{pid} tier={tier} seed={seed}: {evaluations} evaluations, {len(nontrivial)} distinct non-trivial, "
          f"{len(uniq)} violation(s), {sum(known.values())} known-finding matches, {wall:.1f}s")
    for l in vlines:
        print(l)
    if vlines:
        for h in herrs:
            print("HARNESS-ERROR (in addition):", h[:3000], file=sys.stderr)
        return 1
    if herrs:
        for h in herrs:
            print(f"HARNESS-ERROR property={pid}:", h[:6000])
        return 2
    return 0


if __name__ == "__main__":
    sys.exit(main())
