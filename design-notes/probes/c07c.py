import sys, time, random, warnings; warnings.simplefilter('ignore')
sys.path.insert(0,'/tmp/probe')
from refops import *; from kingdon import Algebra, MultiVector
from fractions import Fraction as F
rng = random.Random(int(sys.argv[1])); d = int(sys.argv[2])
worst = 0
for it in range(int(sys.argv[3])):
    sig = [rng.choice([1,1,-1,0]) for _ in range(d)]
    alg = Algebra(signature=sig); ref = R(d, lambda i,j: alg.signs[i,j])
    nk = rng.randint(1, int(sys.argv[4]))
    ks = tuple(rng.sample(range(2**d), nk)); 
    if rng.random() < .7 and 0 not in ks: ks = (0,) + ks[1:]
    vs = [F(rng.randint(-5,5) or 1, rng.randint(1,3)) for _ in ks]
    if ks[0] == 0 and rng.random() < .5: vs[0] = F(sum(abs(v) for v in vs) * 2)   # dominant scalar
    a = MultiVector.fromkeysvalues(alg, ks, [float(v) for v in vs]); ra = dict(zip(ks, vs))
    t = time.time()
    try:
        ai = a.inv(); dt = time.time() - t
        ri = ref.inv(ra)
        g = dict(ai.items())
        if ri is None:
            print('returned for singular', sig, ks, vs, {k: v for k, v in g.items()}); continue
        scale = max(abs(float(v)) for v in ri.values())
        err = max(abs(float(g.get(k, 0)) - float(ri.get(k, 0))) for k in set(g) | set(ri)) / scale
        worst = max(worst, err)
        if err > 1e-9: print('ERR', err, sig, ks, vs)
        if dt > 2: print('slow', round(dt, 1), nk)
    except ZeroDivisionError:
        ri = ref.inv(ra)
        if ri is not None: print('ZDE for invertible', sig, ks, vs)
    except Exception as e:
        print('EXC', type(e).__name__, str(e)[:100], sig, ks, round(time.time() - t, 1))
print('worst rel err', worst)
