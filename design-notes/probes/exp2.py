import warnings; warnings.simplefilter('ignore')
import numpy as np, traceback
from fractions import Fraction as F
from kingdon import Algebra, MultiVector
def t(label, f):
    try: print(label, '->', f())
    except Exception as e: print(label, 'EXC', type(e).__name__, str(e)[:200])
D = lambda m: dict(m.items()) if isinstance(m, MultiVector) else m

alg = Algebra(3)
x = alg.multivector(e=F(2), e1=F(1), e2=F(2), e12=F(3)); y = alg.multivector(e1=F(5), e3=F(1))
def reg(f, **kw): return alg.register(f, **kw) if not kw else alg.register(**kw)(f)
def f_pow_m1(a): return a ** -1
def f_pow_m2(a): return a ** -2
def f_pow_3(a): return a ** 3
def f_pow_0(a): return a ** 0
def f_pow_half(a): return a ** 0.5
def f_coef(a, b): return a.e12 * b
def f_coef2(a): return a.e12
def f_coef_perm(a, b): return a.e21 * b
def f_rdiv(a): return 2 / a
def f_rsub(a): return 2 - a
def f_rmul(a): return 3 * a
def f_divnum(a): return a / 4
def f_rxor(a): return 2 ^ a
def f_ror(a): return 2 | a
def f_grade(a): return a.grade(1)
def f_norm(a): return a.normalized()
def f_dual(a): return a.dual()
def f_float(a): return 0.5 * a + 1.5
def f_frac(a): return F(1,2) * a
for f, args in [(f_pow_m1,(x,)),(f_pow_m2,(x,)),(f_pow_3,(x,)),(f_pow_0,(x,)),(f_pow_half,(x,)),(f_coef,(x,y)),(f_coef2,(x,)),(f_coef_perm,(x,y)),
                (f_rdiv,(x,)),(f_rsub,(x,)),(f_rmul,(x,)),(f_divnum,(x,)),(f_rxor,(x,)),(f_ror,(x,)),(f_grade,(x,)),(f_dual,(x,)),(f_float,(x,)),(f_frac,(x,))]:
    t(f.__name__ + ' plain', lambda: D(f(*args)))
    t(f.__name__ + ' reg  ', lambda: D(alg.register(f)(*args)))
    t(f.__name__ + ' symreg', lambda: D(alg.register(symbolic=True)(f)(*args)))
