import warnings; warnings.simplefilter('ignore')
import re, kingdon.taperecorder as tr
tr.re = re
from fractions import Fraction as F
from kingdon import Algebra, MultiVector
def t(label, f):
    try: print(label, '->', f())
    except Exception as e: print(label, 'EXC', type(e).__name__, str(e)[:200])
D = lambda m: dict(m.items()) if isinstance(m, MultiVector) else m
alg = Algebra(3)
x = alg.multivector(e=F(2), e1=F(1), e2=F(2), e12=F(3)); y = alg.multivector(e1=F(5), e3=F(1))
def f_coef(a, b): return a.e12 * b
def f_coef_r(a, b): return b * a.e12
def f_coef2(a): return a.e12
def f_coef_perm(a, b): return a.e21 * b
def f_coef_abs(a, b): return a.e3 * b
def f_coef_add(a, b): return a.e12 + b
for f, args in [(f_coef,(x,y)),(f_coef_r,(x,y)),(f_coef2,(x,)),(f_coef_perm,(x,y)),(f_coef_abs,(x,y)),(f_coef_add,(x,y))]:
    t(f.__name__ + ' plain', lambda: D(f(*args)))
    t(f.__name__ + ' reg  ', lambda: D(alg.register(f)(*args)))
    t(f.__name__ + ' symreg', lambda: D(alg.register(symbolic=True)(f)(*args)))
