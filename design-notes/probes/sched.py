"""Deterministic cooperative scheduler: one thread runs at a time; switches only at traced yield points, chosen by a schedule list."""
import sys, threading, warnings; warnings.simplefilter('ignore')
from fractions import Fraction as F
KDIR = '/repo/kingdon/'
class Sched:
    def __init__(self, schedule, line_files=('operator_dict.py', 'codegen.py', 'multivector.py', 'algebra.py', 'taperecorder.py')):
        self.schedule = list(schedule); self.pos = 0; self.sems = {}; self.alive = []; self.cur = None
        self.line_files = line_files; self.switches = 0; self.points = 0; self.errors = {}
        self.results = {}
    def choose(self):
        if self.pos < len(self.schedule):
            c = self.schedule[self.pos]; self.pos += 1; return c
        return 0          # after schedule exhausted: never switch voluntarily
    def yield_point(self, tid):
        self.points += 1
        if len(self.alive) <= 1: return
        c = self.choose()
        if c == 0: return
        others = [t for t in self.alive if t != tid]
        nxt = others[(c - 1) % len(others)]
        self.switches += 1; self.cur = nxt
        self.sems[nxt].release(); self.sems[tid].acquire()
    def tracer(self, tid):
        def local(frame, event, arg):
            if event == 'line': self.yield_point(tid)
            return local
        def glob(frame, event, arg):
            fn = frame.f_code.co_filename
            if event == 'call' and fn.startswith(KDIR):
                self.yield_point(tid)
                if fn.endswith(self.line_files): return local
            return None
        return glob
    def run(self, bodies):
        def worker(tid, body):
            self.sems[tid].acquire()
            sys.settrace(self.tracer(tid))
            try: self.results[tid] = body()
            except BaseException as e: self.errors[tid] = e
            finally:
                sys.settrace(None)
                self.alive.remove(tid)
                if self.alive:
                    nxt = self.alive[0]; self.cur = nxt; self.sems[nxt].release()
        ths = []
        for tid, body in enumerate(bodies):
            self.sems[tid] = threading.Semaphore(0); self.alive.append(tid)
            ths.append(threading.Thread(target=worker, args=(tid, body), daemon=True))
        for t in ths: t.start()
        self.cur = 0; self.sems[0].release()
        for t in ths: t.join(120)
        assert not any(t.is_alive() for t in ths), 'deadlock'
        return self.results

if __name__ == '__main__':
    import random, time
    from kingdon import Algebra, MultiVector
    D = lambda m: dict(m.items())
    def mkbodies(alg):
        a1 = MultiVector.fromkeysvalues(alg, (1, 2), [F(1), F(10)]); a2 = MultiVector.fromkeysvalues(alg, (2, 1), [F(10), F(1)])
        b = MultiVector.fromkeysvalues(alg, (1, 4, 7), [F(3), F(7), F(2)])
        return [lambda: [D(a1 * b), D(a1 >> b), D(a1.inv()), D(a1 / b)], lambda: [D(a2 * b), D(a2 >> b), D(b.inv()), D(a1 / b)], lambda: [D(a1 >> b), D(a1 * b), D(b / a1)]]
    base = [f() for f in mkbodies(Algebra(3))]
    rng = random.Random(0)
    t = time.time(); tot = 0
    for trial in range(30):
        schedule = [rng.choice([0, 0, 0, 1, 2]) for _ in range(400)]
        # sprinkle: long prefix of no-switch then dense switching
        s = Sched(schedule); alg = Algebra(3)
        res = s.run(mkbodies(alg))
        ok = all(res.get(i) == base[i] for i in range(3)) and not s.errors
        tot += s.switches
        if not ok: print('trial', trial, 'MISMATCH', s.errors, res)
    # determinism: same schedule twice
    sch = [rng.choice([0, 1, 2]) for _ in range(300)]
    s1 = Sched(sch); s1.run(mkbodies(Algebra(3))); s2 = Sched(sch); s2.run(mkbodies(Algebra(3)))
    print('30 trials', round(time.time() - t, 2), 's switches', tot, 'points last', s.points, 'deterministic', (s1.points, s1.switches) == (s2.points, s2.switches), s1.points, s1.switches)
