import sys, os, warnings; warnings.simplefilter('ignore')
sys.path.insert(0, '/tmp/probe')
from fractions import Fraction as F
import hypothesis
from hypothesis import settings, strategies as st, HealthCheck
from hypothesis.stateful import RuleBasedStateMachine, rule, invariant, initialize, run_state_machine_as_test
from kingdon import Algebra, MultiVector
BIN = ['gp','op','ip','lc','rc','sp','cp','acp','add','sub','rp','sw','proj','div']
UN = ['neg','reverse','involute','conjugate','normsq','hodge','unhodge','inv']
def passthrough(f):
    def g(*a): return f(*a)
    g.__name__ = f.__name__; return g
WRAP = os.environ.get('WRAP') == '1'
FRESH = {}
stats = {'steps': 0, 'machines': 0, 'reorder': 0}
def D(m): return {k: v for k, v in m.items() if v != 0}
class M(RuleBasedStateMachine):
    @initialize(sig=st.lists(st.sampled_from([1, -1, 0]), min_size=1, max_size=3))
    def init(self, sig):
        self.sig = sig; self.alg = Algebra(signature=sig, wrapper=passthrough if WRAP else None)
        self.pool = []; self.snap = []; stats['machines'] += 1; self.seen = {}
    def fresh(self): return Algebra(signature=self.sig, wrapper=passthrough if WRAP else None)
    def mk(self, alg, kv): return MultiVector.fromkeysvalues(alg, tuple(kv[0]), list(kv[1]))
    @rule(data=st.data())
    def new_operand(self, data):
        n = 2 ** len(self.sig)
        ks = data.draw(st.lists(st.integers(0, n - 1), unique=True, min_size=1, max_size=min(n, 5)))
        vs = [F(data.draw(st.integers(-4, 4)), data.draw(st.integers(1, 3))) for _ in ks]
        self.pool.append((tuple(ks), tuple(vs)))
    @rule(data=st.data())
    def permuted_copy(self, data):
        if not self.pool: return
        ks, vs = data.draw(st.sampled_from(self.pool)); p = data.draw(st.permutations(range(len(ks))))
        self.pool.append((tuple(ks[i] for i in p), tuple(vs[i] for i in p)))
    @rule(op=st.sampled_from(BIN + UN), data=st.data())
    def call(self, op, data):
        if not self.pool: return
        a = data.draw(st.sampled_from(self.pool)); b = data.draw(st.sampled_from(self.pool))
        key = (tuple(self.sig), op, a, b if op in BIN else None)
        def ev(alg):
            x, y = self.mk(alg, a), self.mk(alg, b)
            try: r = getattr(x, op)(y) if op in BIN else getattr(x, op)(); return ('ok', D(r), (x, y, r))
            except Exception as e: return ('exc', type(e).__name__, None)
        if key not in FRESH: f = ev(self.fresh()); FRESH[key] = f[:2]
        exp = FRESH[key]; got = ev(self.alg); stats['steps'] += 1
        ks = (op, frozenset(a[0])); 
        if ks in self.seen and self.seen[ks] != a[0]: stats['reorder'] += 1
        self.seen.setdefault(ks, a[0])
        assert got[:2] == exp, (self.sig, op, a, b, got[:2], exp)
        if got[0] == 'ok':
            for m in got[2]: self.snap.append((m, tuple(m.keys()), list(m.values())))
    @invariant()
    def no_mutation(self):
        for m, ks, vs in getattr(self, 'snap', []): assert tuple(m.keys()) == ks and list(m.values()) == vs
seed = int(sys.argv[1]); n = int(sys.argv[2])
import time; t = time.time()
try:
    run_state_machine_as_test(hypothesis.seed(seed)(M), settings=settings(max_examples=n, stateful_step_count=30, deadline=None, database=None, suppress_health_check=list(HealthCheck), report_multiple_bugs=False))
    print('PASS', stats, round(time.time() - t, 1))
except AssertionError as e:
    print('FAIL', str(e)[:800], stats, round(time.time() - t, 1))
