import sys, random, time, traceback, warnings; warnings.simplefilter('ignore')
sys.path.insert(0, '/tmp/probe')
from gen import *; from kingdon import Algebra, MultiVector
from fractions import Fraction as F
BIN = ['gp','op','ip','lc','rc','sp','cp','acp','add','sub','rp','sw','proj','div']
UN = ['neg','reverse','involute','conjugate','normsq','hodge','unhodge','inv','outerexp','outersin','outercos','outertan','sqrt','polarity','unpolarity']
def variant(rng, alg, ks, vs):
    n = len(alg); m = dict(zip(ks, vs))
    mode = rng.choice(['perm', 'pad', 'fullcan', 'fullbin', 'padperm'])
    if mode == 'perm': k2 = list(ks); rng.shuffle(k2)
    elif mode == 'fullcan': k2 = list(alg.canon2bin.values())
    elif mode == 'fullbin': k2 = list(range(n))
    else:
        extra = [k for k in range(n) if k not in m and rng.random() < .4]; k2 = list(ks) + extra
        if mode == 'padperm': rng.shuffle(k2)
    return tuple(k2), [m.get(k, F(0)) for k in k2], mode
def close(g, e):
    for k in set(g) | set(e):
        a, b = g.get(k, 0), e.get(k, 0)
        if isinstance(a, F) and isinstance(b, F):
            if a != b: return False
        elif abs(complex(a) - complex(b)) > 1e-9 * (1 + abs(complex(b))): return False
    return True
def run(seed, n, dmax):
    rng = random.Random(seed); fails = {}; cnt = 0
    for it in range(n):
        d = rng.randint(1, dmax); sig = [rng.choice([1, 1, -1, 0]) for _ in range(d)]; alg = Algebra(signature=sig)
        for _ in range(3):
            ka = rand_keys(rng, d, 'sparse')[:5] or (0,); kb = rand_keys(rng, d, 'sparse')[:5] or (1,)
            va = [F(rng.randint(1, 5), rng.randint(1, 3)) for _ in ka]; vb = [F(rng.randint(-5, 5), rng.randint(1, 3)) for _ in kb]
            ka2, va2, m1 = variant(rng, alg, ka, va); kb2, vb2, m2 = variant(rng, alg, kb, vb)
            if d >= 4: ka2, va2, kb2, vb2 = ka2[:7], va2[:7], kb2[:7], vb2[:7]; 
            if d >= 4 and (set(ka) - set(ka2) or set(kb) - set(kb2)): continue
            a, b = MultiVector.fromkeysvalues(alg, ka, list(va)), MultiVector.fromkeysvalues(alg, kb, list(vb))
            a2, b2 = MultiVector.fromkeysvalues(alg, ka2, list(va2)), MultiVector.fromkeysvalues(alg, kb2, list(vb2))
            for op in BIN + UN:
                cnt += 1
                def ev(x, y):
                    try:
                        r = getattr(x, op)(y) if op in BIN else getattr(x, op)()
                        return ('ok', dict(r.items()))
                    except Exception as e: return ('exc', type(e).__name__, str(e)[:60])
                r1, r2 = ev(a, b), ev(a2, b2)
                if r1[0] != r2[0]: fails.setdefault((op, r1[0], r2[0], (r1 if r1[0] == 'exc' else r2)[1:]), []).append((sig, ka, ka2, m1, kb, kb2, m2))
                elif r1[0] == 'ok' and not close(r1[1], r2[1]): fails.setdefault((op, 'value'), []).append((sig, ka, va, ka2, kb, vb, kb2, r1[1], r2[1]))
    return cnt, fails
t = time.time(); cnt, fails = run(int(sys.argv[1]), int(sys.argv[2]), int(sys.argv[3])); print('cases', cnt, round(time.time() - t, 1))
for k, v in fails.items(): print(k, len(v), str(v[0])[:400])
