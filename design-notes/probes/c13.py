import sys, random, time, traceback
sys.path.insert(0, '/tmp/probe')
from refops import *; from gen import *
from kingdon import Algebra, MultiVector
import sympy, itertools
import warnings; warnings.simplefilter('ignore')
BIN = ['gp','op','ip','lc','rc','sp','cp','acp','add','sub','rp','sw','proj','div']
UN = ['neg','reverse','involute','conjugate','normsq','hodge','unhodge','inv','polarity','unpolarity','outerexp','outersin','outercos','outertan','sqrt']
def wrap(f):
    def g(*a): return f(*a)
    g.__name__ = f.__name__; return g
def grade_keys(rng, d, alg):
    gs = tuple(g for g in range(d + 1) if rng.random() < .45) or (rng.randrange(d + 1),)
    return alg.indices_for_grades[gs]
def run(seed, dmax=3, n=20):
    rng = random.Random(seed); fails = {}; cnt = 0
    for it in range(n):
        d = rng.randint(1, dmax)
        sig = [rng.choice([1, 1, -1, 0]) for _ in range(d)]
        base = Algebra(signature=sig)
        variants = {}
        for cse, graded, sc, wr in itertools.product([True, False], [False, True], [None, sympy.Symbol], [None, wrap]):
            variants[(cse, graded, sc is not None, wr is not None)] = Algebra(signature=sig, cse=cse, graded=graded, codegen_symbolcls=sc, wrapper=wr)
        for _ in range(3):
            ka, kb = grade_keys(rng, d, base), grade_keys(rng, d, base)
            va, vb = [F(rng.randint(1, 5), rng.randint(1, 3)) for _ in ka], [F(rng.randint(-5, 5), rng.randint(1, 3)) for _ in kb]
            for op in BIN + UN:
                def ev(alg):
                    a = MultiVector.fromkeysvalues(alg, ka, list(va)); b = MultiVector.fromkeysvalues(alg, kb, list(vb))
                    try:
                        r = getattr(a, op)(b) if op in BIN else getattr(a, op)()
                        return ('ok', {k: v for k, v in r.items()})
                    except Exception as e:
                        return ('exc', type(e).__name__, str(e)[:80])
                ref = ev(base); cnt += 1
                for key, alg in variants.items():
                    got = ev(alg)
                    if ref[0] == 'ok' and got[0] == 'ok':
                        g, e = got[1], ref[1]
                        ks = set(g) | set(e)
                        try:
                            bad = any(abs(complex(g.get(k, 0)) - complex(e.get(k, 0))) > 1e-9 * (1 + abs(complex(e.get(k, 0)))) for k in ks)
                        except Exception as ex: bad = True
                        if bad: fails.setdefault((op, key, 'value'), []).append((sig, ka, va, kb, vb, g, e))
                        if key[1]:
                            grs = {bin(k).count('1') for k in g}
                            if set(g) != set(alg.indices_for_grades[tuple(sorted(grs))]): fails.setdefault((op, 'graded incomplete'), []).append((sig, ka, kb, sorted(g)))
                    elif ref[0] != got[0]:
                        fails.setdefault((op, key, ref[0], got[0], got[1] if got[0]=='exc' else ref[1]), []).append((sig, ka, kb, ref if ref[0]=='exc' else None, got if got[0]=='exc' else None))
    return cnt, fails
if __name__ == '__main__':
    t = time.time(); cnt, fails = run(int(sys.argv[1]), n=int(sys.argv[2]), dmax=int(sys.argv[3]))
    print('cases', cnt, time.time() - t)
    agg = {}
    for k, v in fails.items(): print(k, len(v)); print('     ', str(v[0])[:600])
