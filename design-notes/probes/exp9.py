import warnings; warnings.simplefilter('ignore')
import numpy as np, sympy
from fractions import Fraction as F
from kingdon import Algebra, MultiVector
from kingdon.matrixreps import expr_as_matrix
def t(label, f):
    try: print(label, '->', f())
    except Exception as e:
        import traceback; print(label, 'EXC', type(e).__name__, str(e)[:300]); 
D = lambda m: dict(m.items()) if isinstance(m, MultiVector) else m
alg = Algebra(2, 0, 1)
R = alg.evenmv(name='R'); x = alg.vector(name='x')
def chk(A, y, x, env=None):
    # A . coeffs(x) == coeffs(y)
    xv = sympy.Matrix(list(x.values()))
    Ax = sympy.Matrix(A) * xv if not isinstance(A, np.ndarray) or A.ndim == 2 else None
    return [sympy.simplify(a - b) for a, b in zip(Ax, y.values())]
A, y = expr_as_matrix(lambda R, x: R >> x, R, x); print('sym', chk(A, y, x))
Rn = alg.evenmv(e=0.6, e12=0.8); A, y = expr_as_matrix(lambda R, x: R >> x, Rn, x); print('num', type(A), chk(A, y, x))
t('res_like', lambda: (lambda Ay: (Ay[0], D(Ay[1])))(expr_as_matrix(lambda R, x: R >> x, R, x, res_like=alg.vector(e1=1))))
Ra = alg.evenmv(e=np.array([0.6, 1.0]), e12=np.array([0.8, 0.0]))
t('array', lambda: (lambda Ay: (np.array(Ay[0]).shape, Ay[0], D(Ay[1])))(expr_as_matrix(lambda R, x: R >> x, Ra, x)))
t('operator dict', lambda: expr_as_matrix(alg.gp, R, x)[0])
t('single input', lambda: expr_as_matrix(lambda x: ~x, alg.multivector(name='x'))[0])
t('sparse x perm keys', lambda: (lambda Ay: (Ay[0], D(Ay[1])))(expr_as_matrix(lambda R, x: R * x, R, alg.multivector(name='x', keys=(4, 1)))))
t('y blade w/o x dep dropped?', lambda: (lambda Ay: (Ay[0], D(Ay[1])))(expr_as_matrix(lambda R, x: R ^ x, alg.multivector(name='R', keys=(1,)), alg.multivector(name='x', keys=(1, 2)))))
# C16 indexing
B = Algebra(3)
X = B.vector(np.arange(12.).reshape(3, 4)); Y = B.bivector(np.arange(12.).reshape(3, 4) + 1)
Z = X * Y
print('idx', D((X * Y)[2]), D(X[2] * Y[2]))
t('setitem', lambda: (X.__setitem__(1, B.vector([100., 200., 300.])), D(X))[1])
Xl = B.vector([np.arange(4.), np.arange(4.) + 10, np.arange(4.) + 20])
t('setitem list', lambda: (Xl.__setitem__(1, B.vector([100., 200., 300.])), D(Xl))[1])
t('setitem slice', lambda: (Xl.__setitem__(slice(2, 4), Xl[0:2]), D(Xl))[1])
t('setitem keys mismatch', lambda: X.__setitem__(1, B.bivector([1., 2., 3.])))
t('setitem permuted keys', lambda: (X.__setitem__(0, MultiVector.fromkeysvalues(B, (2, 1, 4), [1., 2., 3.])), D(X))[1])
t('shape', lambda: (X.shape, Xl.shape, B.vector([1, 2, 3]).shape))
t('empty shape', lambda: B.multivector().shape)
t('itermv scalar', lambda: B.vector([1,2,3]).itermv())
