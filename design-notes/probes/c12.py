import sys, random, time, traceback
sys.path.insert(0, '/tmp/probe')
from refops import *; from gen import *
from kingdon import Algebra, MultiVector
import sympy
import warnings; warnings.simplefilter('ignore')
BIN = ['gp','op','ip','lc','rc','sp','cp','acp','add','sub','rp','sw','proj','div']
UN = ['neg','reverse','involute','conjugate','normsq','hodge','unhodge','inv']
def run(seed, dmax=3, n=30):
    rng = random.Random(seed); fails = {}; cnt = 0; dropped = 0
    for it in range(n):
        d = rng.randint(1, dmax)
        sig = [rng.choice([1, 1, -1, 0]) for _ in range(d)]
        alg = Algebra(signature=sig)
        ref = R(d, lambda i, j: alg.signs[i, j])
        for _ in range(3):
            ka, kb = rand_keys(rng, d, 'sparse'), rand_keys(rng, d, 'sparse')
            if len(ka) > 4: ka = ka[:4]
            if len(kb) > 4: kb = kb[:4]
            va, vb = rand_vals(rng, ka), rand_vals(rng, kb)
            # partition into symbolic / numeric
            def mk(name, ks, vs):
                vals = []; env = {}
                for k, v in zip(ks, vs):
                    if rng.random() < .7:
                        s = sympy.Symbol(f'{name}{k}'); vals.append(s); env[s] = sympy.Rational(v.numerator, v.denominator)
                    else: vals.append(v)
                return MultiVector.fromkeysvalues(alg, ks, vals), env
            a, ea = mk('a', ka, va); b, eb = mk('b', kb, vb); env = {**ea, **eb}
            an = MultiVector.fromkeysvalues(alg, ka, list(va)); bn = MultiVector.fromkeysvalues(alg, kb, list(vb))
            for op in BIN + UN:
                cnt += 1
                try:
                    try:
                        num = getattr(an, op)(bn) if op in BIN else getattr(an, op)()
                    except ZeroDivisionError: continue
                    sym = getattr(a, op)(b) if op in BIN else getattr(a, op)()
                    # subs
                    got = {k: (sympy.sympify(v).subs(env) if hasattr(v, 'subs') or True else v) for k, v in sym.items()}
                    got = {k: sympy.nsimplify(v) if not isinstance(v, sympy.Expr) else v for k, v in got.items()}
                    exp = {k: sympy.Rational(v.numerator, v.denominator) if isinstance(v, F) else sympy.nsimplify(v) for k, v in num.items()}
                    g = {k: sympy.simplify(v) for k, v in got.items()}; g = {k: v for k, v in g.items() if v != 0}
                    e = {k: v for k, v in exp.items() if v != 0}
                    bad = set(g) ^ set(e) or any(abs(float(g[k] - e[k])) > 1e-9 for k in g)
                    if bad: fails.setdefault((op, 'subs value'), []).append((sig, ka, va, kb, vb, str(a), str(b), g, e))
                    # call
                    if sym.free_symbols:
                        fs = sorted(sym.free_symbols, key=lambda s: s.name)
                        called = sym(*[float(env[s]) for s in fs])
                        c = {k: v for k, v in called.items() if abs(v) > 1e-9}
                        bad = set(c) ^ set(e) or any(abs(float(c[k]) - float(e[k])) > 1e-6 * (1 + abs(float(e[k]))) for k in c)
                        if bad: fails.setdefault((op, 'call value'), []).append((sig, ka, va, kb, vb, str(a), str(b), c, e))
                        called = sym(**{s.name: float(env[s]) for s in fs})
                        c = {k: v for k, v in called.items() if abs(v) > 1e-9}
                        bad = set(c) ^ set(e) or any(abs(float(c[k]) - float(e[k])) > 1e-6 * (1 + abs(float(e[k]))) for k in c)
                        if bad: fails.setdefault((op, 'kwcall value'), []).append((sig, ka, va, kb, vb, str(a), str(b), c, e))
                except Exception as ex:
                    fails.setdefault((op, type(ex).__name__, str(ex)[:80]), []).append((sig, ka, kb, str(a), str(b), traceback.format_exc().splitlines()[-5:]))
    return cnt, fails
if __name__ == '__main__':
    t = time.time(); cnt, fails = run(int(sys.argv[1]), n=int(sys.argv[2]))
    print('cases', cnt, time.time() - t)
    for k, v in fails.items(): print(k, len(v)); print('   ', v[0])
