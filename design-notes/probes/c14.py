import sys, random, time, traceback, warnings; warnings.simplefilter('ignore')
sys.path.insert(0, '/tmp/probe')
from ref import *; from c01b import custom_config
from fractions import Fraction as F
from kingdon import Algebra, MultiVector
BIN = ['gp','op','ip','lc','rc','sp','cp','acp','add','sub','rp','sw','proj','div']
UN = ['neg','reverse','involute','conjugate','normsq','hodge','unhodge','inv','polarity','unpolarity','outerexp']
ORI = {'hodge', 'unhodge', 'rp', 'polarity', 'unpolarity'}
def run(seed, n, dmax):
    rng = random.Random(seed); fails = {}; cnt = 0; oris = 0
    for it in range(n):
        d = rng.randint(1, dmax); sig = [rng.choice([1, 1, -1, 0]) for _ in range(d)]; start = rng.choice([0, 1, 2])
        kind = rng.random()
        if kind < .15: C = Algebra.fromname(rng.choice(['2DPGA', '3DPGA'])); sig = list(C.signature); start = C.start_index; d = C.d; names = C.basis
        else:
            gens, metric, names = custom_config(rng, sig, start); C = Algebra(signature=list(sig), basis=names)
        Dg = Algebra(signature=list(sig), start_index=start)
        # phi: custom canonical name -> (sign, default canonical name)
        def phi_name(n):
            srt = ''.join(sorted(n[1:], key=lambda c: int(c, 16))); par = perm_parity([int(c, 16) for c in n[1:]])
            return (-1 if par else 1), 'e' + srt
        def phi(mv):
            out = {}
            for k, v in mv.items():
                s, dn = phi_name(C.bin2canon[k]); out[Dg.canon2bin[dn]] = out.get(Dg.canon2bin[dn], 0) + s * v
            return {k: v for k, v in out.items() if v != 0}
        s_pss = phi_name(C.bin2canon[2**d - 1])[0]; oris += s_pss < 0
        for _ in range(3):
            na = rng.sample(names, rng.randint(1, min(6, len(names)))); nb = rng.sample(names, rng.randint(1, min(6, len(names))))
            va = [F(rng.randint(1, 5), rng.randint(1, 3)) for _ in na]; vb = [F(rng.randint(-5, 5) or 1, rng.randint(1, 3)) for _ in nb]
            x = C.multivector(list(va), keys=tuple(na)); y = C.multivector(list(vb), keys=tuple(nb))
            def to_d(mv):
                m = phi(mv); return MultiVector.fromkeysvalues(Dg, tuple(m.keys()), list(m.values()))
            xd, yd = to_d(x), to_d(y)
            for op in BIN + UN:
                cnt += 1
                def ev(a, b):
                    try: return ('ok', getattr(a, op)(b) if op in BIN else getattr(a, op)())
                    except Exception as e: return ('exc', type(e).__name__)
                rc, rd = ev(x, y), ev(xd, yd)
                if rc[0] != rd[0]: fails.setdefault((op, rc[0], rd[0], rc[1] if rc[0] == 'exc' else rd[1]), []).append((sig, names)); continue
                if rc[0] == 'exc': continue
                g = phi(rc[1]); e = {k: v for k, v in rd[1].items() if v != 0}
                if op in ORI and s_pss < 0: e = {k: -v for k, v in e.items()}
                if (set(g) != set(e) or any(abs(float(g[k]) - float(e[k])) > 1e-12 * (1 + abs(float(e[k]))) for k in g)): fails.setdefault((op, 'value', 'pss_sign', s_pss), []).append((sig, start, names, na, va, nb, vb, g, e))
    return cnt, fails, oris
t = time.time(); cnt, fails, oris = run(int(sys.argv[1]), int(sys.argv[2]), int(sys.argv[3])); print('cases', cnt, 'neg-oriented pss configs', oris, round(time.time() - t, 1))
for k, v in fails.items(): print(k, len(v), str(v[0])[:500])
