import warnings; warnings.simplefilter('ignore')
import numpy as np, struct
from fractions import Fraction as F
from kingdon import Algebra, MultiVector
def t(label, f):
    try: print(label, '->', f())
    except Exception as e: print(label, 'EXC', type(e).__name__, str(e)[:200])
alg = Algebra(3)
x = alg.vector([1., 2., 3.])
full_bin = x.asfullmv(canonical=False); full_can = x.asfullmv()
w = alg.graph(0xff0000, x, 'x', full_bin, full_can, [x, (full_bin,)], lambda: x, lineWidth=3)
print('subjects', w.subjects)
print('key2idx', w.key2idx, 'sig', w.signature)
print('drag', w.draggable_points, w.draggable_points_idxs)
print('options', w.options)
xa = alg.vector(np.array([1, 2, 3])); t('int ndarray', lambda: alg.graph(xa).subjects)
xf = alg.vector(np.array([1., 2., 3.])); t('float ndarray', lambda: alg.graph(xf).subjects)
xarr = alg.vector(np.arange(6.).reshape(3, 2)); t('array valued', lambda: alg.graph(xarr).subjects)
xlist = alg.vector([np.arange(2.), np.arange(2.) + 5, np.arange(2.) + 9]); t('list of arrays', lambda: alg.graph(xlist).subjects)
xt = alg.vector((1., 2., 3.)); t('tuple backed', lambda: alg.graph(xt).subjects)
t('camera', lambda: alg.graph(x, camera=x).options)
# drag
p = alg.vector([1., 2., 3.]); q = alg.multivector(e12=5.0, e1=1.0); fb = p.asfullmv(canonical=False)
dep = lambda: p + q
w = alg.graph(p, 0xff, q, dep, fb)
print('before', w.subjects, w.draggable_points, w.draggable_points_idxs)
newpts = [{'mv': [0, 10., 20., 30., 0, 0, 0, 0]}, {'mv': [0, 7., 0, 0, 9., 0, 0, 0]}, {'mv': [0, 10., 20., 30., 0, 0, 0, 0]}]
w.draggable_points = newpts
print('after p', dict(p.items()), 'q', dict(q.items()), 'fb', dict(fb.items()))
print('subjects', w.subjects)
