import sys, random, warnings, time; warnings.simplefilter('ignore')
import numpy as np
from kingdon import Algebra, MultiVector
from types import FunctionType
def to_element(o, key2idx, n):
    vals = o['mv']
    if isinstance(vals, (bytes, bytearray)): vals = np.frombuffer(vals, dtype=np.float64)
    if 'keys' in o:
        full = [0] * n
        for j, k in enumerate(o['keys']): full[key2idx[k]] = vals[j]
        return ('EL', tuple(float(v) for v in full))
    return ('EL', tuple(float(v) for v in vals))
def decode(x, key2idx, n):
    if isinstance(x, dict) and 'mv' in x: return to_element(x, key2idx, n)
    if isinstance(x, (list, tuple)): return [decode(i, key2idx, n) for i in x]
    return x
def expected(o, alg, root=False):
    """returns list of decoded items to splice into parent"""
    canon = list(alg.canon2bin.values())
    if isinstance(o, (list, tuple)):
        items = [y for v in o for y in expected(v, alg)]
        return items if root else [items]
    if isinstance(o, MultiVector):
        if len(o.shape) > 1: return [y for m in o.itermv() for y in expected(m, alg)]
        d = dict(o.items()); return [('EL', tuple(float(d.get(k, 0)) for k in canon))]
    if callable(o): return expected(o(), alg)
    return [o]
def gen_mv(rng, alg, allow_defect):
    n = len(alg); kind = rng.choice(['sparse', 'dense_can', 'perm', 'arr', 'arr2', 'listarr', 'nd'] + (['dense_bin', 'dense_perm', 'nd_int'] if allow_defect else []))
    canon = list(alg.canon2bin.values())
    if kind in ('sparse', 'perm', 'nd', 'nd_int', 'arr', 'arr2', 'listarr'):
        ks = rng.sample(canon, rng.randint(1, n - 1)) if n > 1 else [0]
        if kind == 'sparse': ks = sorted(ks, key=canon.index)
    elif kind == 'dense_can': ks = canon
    elif kind == 'dense_bin': ks = list(range(n))
    else: ks = canon[:]; rng.shuffle(ks)
    if kind == 'nd': vals = np.array([rng.uniform(-3, 3) for _ in ks])
    elif kind == 'nd_int': vals = np.array([rng.randint(-3, 3) for _ in ks])
    elif kind == 'arr': vals = np.array([[rng.uniform(-3, 3) for _ in range(3)] for _ in ks])
    elif kind == 'arr2': vals = np.array([[[rng.uniform(-3, 3) for _ in range(2)] for _ in range(2)] for _ in ks])
    elif kind == 'listarr': vals = [np.array([rng.uniform(-3, 3) for _ in range(3)]) for _ in ks]
    else: vals = [rng.choice([rng.uniform(-3, 3), float(rng.randint(-3, 3)), rng.randint(-3, 3)]) for _ in ks]
    return MultiVector.fromkeysvalues(alg, tuple(ks), vals), kind
def gen_tree(rng, alg, depth, allow_defect, kinds):
    k = rng.random()
    if k < .15: return rng.choice([0xff0000, 255, 'label', '<svg/>'])
    if k < .55 or depth == 0:
        m, kind = gen_mv(rng, alg, allow_defect); kinds.append(kind); return m
    if k < .8:
        items = [gen_tree(rng, alg, depth - 1, allow_defect, kinds) for _ in range(rng.randint(0, 3))]
        return items if rng.random() < .6 else tuple(items)
    inner = gen_tree(rng, alg, depth - 1, allow_defect, kinds)
    return (lambda v: (lambda: v))(inner) if rng.random() < .7 else (lambda v: (lambda: (lambda: v)))(inner)
def run(seed, n, allow_defect):
    rng = random.Random(seed); fails = {}; cnt = 0
    for it in range(n):
        d = rng.randint(1, 4); sig = [rng.choice([1, 1, -1, 0]) for _ in range(d)]; alg = Algebra(signature=sig)
        kinds = []; subjects = [gen_tree(rng, alg, 2, allow_defect, kinds) for _ in range(rng.randint(1, 4))]
        cnt += 1
        try:
            w = alg.graph(*subjects)
            key2idx = dict(w.key2idx); got = decode(w.subjects, key2idx, len(alg))
            if len(subjects) == 1 and callable(subjects[0]) and not isinstance(subjects[0], MultiVector):
                pre = subjects[0]();  pre = pre if isinstance(pre, (list, tuple)) else [pre]
                exp = expected(pre, alg, root=True)
            else: exp = expected(list(subjects), alg, root=True)
            if got != exp: fails.setdefault(('decode mismatch', tuple(sorted(set(kinds)))), []).append((sig, got, exp))
            if key2idx != {k: i for i, k in enumerate(alg.canon2bin.values())} or list(w.signature) != sig: fails.setdefault(('meta',), []).append(sig)
        except Exception as e:
            import traceback; fails.setdefault(('exc', type(e).__name__, str(e)[:60]), []).append((sig, kinds, traceback.format_exc().splitlines()[-3:]))
    return cnt, fails
t = time.time(); cnt, fails = run(int(sys.argv[1]), int(sys.argv[2]), sys.argv[3] == 'defect'); print('scenes', cnt, round(time.time() - t, 1))
for k, v in sorted(fails.items(), key=lambda kv: -len(kv[1]))[:8]: print(k, len(v), str(v[0])[:300])
