import warnings; warnings.simplefilter('ignore')
import numpy as np
from fractions import Fraction as F
from kingdon import Algebra, MultiVector
def t(label, f):
    try: print(label, '->', f())
    except Exception as e: print(label, 'EXC', type(e).__name__, str(e)[:200])
D = lambda m: dict(m.items()) if isinstance(m, MultiVector) else m
# graded
for sig in ([1, 0], [0, 1], [1, 1, 0], [1,1,1]):
    g = Algebra(signature=sig, graded=True); n = Algebra(signature=sig)
    v = g.vector([F(k + 1) for k in range(len(sig))]); vn = n.vector([F(k + 1) for k in range(len(sig))])
    r = v * g.pss
    print(sig, 'v*pss graded', D(r), 'default', D(vn * n.pss))
    t('   then (v*pss)*v graded', lambda: D(r * v))
    t('   then (v*pss)*v default', lambda: D((vn * n.pss) * vn))
    t('   v|v', lambda: D(v | v)); t('   hodge', lambda: D(v.hodge())); t('   v^v', lambda: D(v ^ v)); 
    t('   (v^v)*v', lambda: D((v ^ v) * v)); t('   (v^v)*v default', lambda: D((vn ^ vn) * vn))
    t('   inv', lambda: D(v.inv())); t('   v.grade(1)', lambda: D(v.grade(1)))
    t('   v>>v', lambda: D(v >> v)); t('   sqrt(1+B)', lambda: D((1 + g.bivector([F(1)] * len(g.indices_for_grade[2]))).sqrt()))
    t('   outerexp', lambda: D(v.outerexp()))
    t('   2*v', lambda: D(2 * v)); t('   v+1', lambda: D(v + 1))
    t('   blades.e1 * blades.e2', lambda: D(g.blades['e1' if g.start_index else 'e0'] * g.blades.e1))
