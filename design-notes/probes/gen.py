import random
from fractions import Fraction as F
def rand_keys(rng, d, mode=None):
    n = 2 ** d
    mode = mode or rng.choice(['sparse', 'sparse', 'grade', 'full', 'empty', 'single', 'perm'])
    if mode == 'empty': return ()
    if mode == 'single': return (rng.randrange(n),)
    if mode == 'full':
        ks = list(range(n));
        if rng.random() < .5: rng.shuffle(ks)
        return tuple(ks)
    if mode == 'grade':
        gs = [g for g in range(d + 1) if rng.random() < .4] or [rng.randrange(d + 1)]
        ks = [k for k in range(n) if bin(k).count('1') in gs]
        return tuple(sorted(ks, key=lambda k: (bin(k).count('1'), k)))
    ks = [k for k in range(n) if rng.random() < rng.choice([.2, .5, .8])]
    rng.shuffle(ks)
    return tuple(ks)
def rand_vals(rng, keys):
    return [F(rng.randint(-5, 5), rng.randint(1, 4)) if rng.random() < .85 else F(0) for _ in keys]
