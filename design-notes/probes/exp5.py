import warnings; warnings.simplefilter('ignore')
import numpy as np
from fractions import Fraction as F
from kingdon import Algebra, MultiVector
def t(label, f):
    try: print(label, '->', f())
    except Exception as e: print(label, 'EXC', type(e).__name__, str(e)[:200])
D = lambda m: dict(m.items()) if isinstance(m, MultiVector) else m
A = Algebra(signature=[1, -1]); B = Algebra(signature=[-1, 1]); C = Algebra(1, 1)
print('A==B', A == B, 'A==C', A == C)
a = A.multivector(e1=2); b = B.multivector(e1=3)
t('A*B e1e1 (A: +, B: -)', lambda: D(a * b))
t('B*A', lambda: D(b * a))
t('A+B', lambda: D(a + b))
A0 = Algebra(2, start_index=0); A1 = Algebra(2)
t('start idx mix', lambda: D(A0.multivector(e0=1) * A1.multivector(e1=1)))
P = Algebra(2, 0, 1); Pc = Algebra.fromname('2DPGA')
t('P * Pc', lambda: D(P.multivector(e12=1) * Pc.multivector(e12=1)))
t('Algebra(2)*Algebra(3)', lambda: D(Algebra(2).multivector(e1=1) * Algebra(3).multivector(e1=1)))
t('Algebra(2)*Algebra(1,1)', lambda: D(Algebra(2).multivector(e2=1) * Algebra(1,1).multivector(e2=1)))
t('unary 3-arg? registry', lambda: None)
# matrix rep under custom basis
for alg in [Algebra(2,0,1), Algebra.fromname('2DPGA'), Algebra.fromname('3DPGA'), Algebra(signature=[1,0,-1]), Algebra(signature=[-1,1,0,1])]:
    names = list(alg.canon2bin)
    bad = 0
    for n1 in names:
        for n2 in names:
            x, y = alg.blades[n1], alg.blades[n2]
            lhs = (x * y).asmatrix() if len(x*y) else 0 * x.asmatrix()
            if not np.array_equal(lhs, x.asmatrix() @ y.asmatrix()): bad += 1
    # first column check
    fc = 0
    for i, n1 in enumerate(names):
        col = alg.blades[n1].asmatrix()[:, 0]
        exp = np.zeros(len(names)); exp[i] = 1
        if not np.array_equal(col, exp): fc += 1
    print(alg.signature, alg.basis[:5], 'homomorphism failures', bad, 'of', len(names)**2, 'first-col failures', fc)
