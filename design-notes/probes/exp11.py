import warnings; warnings.simplefilter('ignore')
import numpy as np, sympy, operator, itertools
from fractions import Fraction as F
from kingdon import Algebra, MultiVector
D = lambda m: {k: v for k, v in m.items()} if isinstance(m, MultiVector) else ([D(i) for i in m] if isinstance(m, (list, tuple)) else m)
def t(f):
    try: return ('ok', f())
    except Exception as e: return ('exc', type(e).__name__, str(e)[:80])
alg = Algebra(2, 0, 1)
x = alg.multivector(e=F(2), e1=F(1), e2=F(3), e12=F(5), e0=F(7)); y = alg.multivector(e1=F(2), e02=F(3), e=F(1))
ops = {'+': operator.add, '-': operator.sub, '*': operator.mul, '/': operator.truediv, '^': operator.xor, '&': operator.and_, '|': operator.or_, '>>': operator.rshift, '@': operator.matmul}
S = lambda v: MultiVector.fromkeysvalues(alg, (0,), [v])
print('--- number/np scalar on left & right vs scalar mv')
for name, op in ops.items():
    for num in (3, 2.5, F(1, 2), np.float64(2.0), np.int64(3), np.float32(0.5)):
        l = t(lambda: D(op(num, x))); le = t(lambda: D(op(S(num), x)))
        r = t(lambda: D(op(x, num))); re_ = t(lambda: D(op(x, S(num))))
        if l != le: print('LEFT ', name, type(num).__name__, l, 'expected', le)
        if r != re_: print('RIGHT', name, type(num).__name__, r, 'expected', re_)
print('--- list/tuple/callable on left & right')
for name, op in ops.items():
    for mk, nm in ((lambda: [x, y], 'list'), (lambda: (x, y), 'tuple')):
        l = t(lambda: D(op(mk(), y))); le = t(lambda: [D(op(m, y)) for m in mk()])
        r = t(lambda: D(op(y, mk()))); re_ = t(lambda: [D(op(y, m)) for m in mk()])
        if l != le: print('LEFT ', name, nm, l[:2] if l[0]=='exc' else 'value differs', )
        if r != re_: print('RIGHT', name, nm, r[:2] if r[0]=='exc' else 'value differs')
    c = lambda: (lambda: x)
    l = t(lambda: D(op(c, y))); le = t(lambda: D(op(x, y))); r = t(lambda: D(op(y, c))); re_ = t(lambda: D(op(y, x)))
    if l != le: print('LEFT ', name, 'callable', l if l[0]=='exc' else 'value differs')
    if r != re_: print('RIGHT', name, 'callable', r if r[0]=='exc' else 'value differs')
print('--- polarity ZDE iff degenerate; dual kind')
for sig in itertools.product([1, -1, 0], repeat=3):
    a = Algebra(signature=list(sig)); v = a.multivector(e=F(1), **{list(a.canon2bin)[1]: F(2)})
    p = t(lambda: D(v.polarity())); r = sum(s == 0 for s in sig)
    if (p[0] == 'exc') != (r > 0) or (p[0] == 'exc' and p[1] != 'ZeroDivisionError'): print('POL', sig, p)
    du = t(lambda: D(v.dual())); 
    exp = t(lambda: D(v.polarity())) if r == 0 else (t(lambda: D(v.hodge())) if r == 1 else ('exc',))
    if du[0] != exp[0] or (du[0] == 'ok' and du != exp): print('DUAL', sig, du, exp)
a0 = Algebra(0); print('d=0', D(a0.scalar([F(3)]).polarity()), D(a0.scalar([F(3)]).hodge()), D(a0.scalar([F(3)]).inv()), D(a0.scalar([F(3)]) & a0.scalar([F(2)])))
