import sys, random, itertools, warnings; warnings.simplefilter('ignore')
sys.path.insert(0, '/tmp/probe')
from ref import perm_parity
from fractions import Fraction as F
from kingdon import Algebra, MultiVector
def t(f):
    try: return ('ok', f())
    except Exception as e: return ('exc', type(e).__name__, str(e)[:80])
rng = random.Random(0); fails = {}
def note(k, v): fails.setdefault(k, []).append(v)
for it in range(400):
    d = rng.randint(1, 4); sig = [rng.choice([1, -1, 0]) for _ in range(d)]
    graded = rng.random() < .2
    alg = rng.choice([lambda: Algebra(signature=sig, graded=graded), lambda: Algebra.fromname('3DPGA', graded=graded), lambda: Algebra.fromname('2DPGA', graded=graded)])() if rng.random() < .8 else Algebra(signature=sig, graded=graded)
    names = list(alg.canon2bin); n = len(names)
    if graded:
        gs = tuple(sorted(rng.sample(range(alg.d + 1), rng.randint(1, alg.d + 1)))); ks = alg.indices_for_grades[gs]
    else:
        ks = tuple(rng.sample(list(alg.canon2bin.values()), rng.randint(1, n)))
    vals = [F(rng.randint(1, 9)) for _ in ks]; truth = dict(zip(ks, vals))
    def check(mv, form):
        if mv[0] != 'ok': note((form, 'raised', mv[1], graded), (alg.signature.tolist(), ks)); return
        mv = mv[1]
        got = dict(mv.items())
        if {k: v for k, v in got.items() if v != 0} != truth: note((form, 'items', graded), (alg.signature.tolist(), alg.basis[:6], ks, got, truth)); return
        # accessors: every spelling
        for name in rng.sample(names, min(5, n)):
            g = list(name[1:]); rng.shuffle(g); sp = 'e' + ''.join(g)
            par = perm_parity([name[1:].index(c) for c in g])
            exp = truth.get(alg.canon2bin[name], 0) * (-1 if par else 1)
            if getattr(mv, sp) != exp: note((form, 'getattr', graded), (sp, name, getattr(mv, sp), exp))
        for name in names:
            if (name in mv) != (alg.canon2bin[name] in got): note((form, 'contains'), name)
        full = mv.asfullmv(); fb = mv.asfullmv(canonical=False)
        if dict(full.items()) != {k: truth.get(k, 0) for k in alg.canon2bin.values()} or list(full.keys()) != list(alg.canon2bin.values()): note((form, 'asfullmv'), 1)
        if dict(fb.items()) != {k: truth.get(k, 0) for k in range(n)} or list(fb.keys()) != list(range(n)): note((form, 'asfullmv bin'), 1)
    # forms
    check(t(lambda: alg.multivector(list(vals), keys=ks)), 'values+intkeys')
    check(t(lambda: alg.multivector(list(vals), keys=tuple(alg.bin2canon[k] for k in ks))), 'values+namekeys')
    check(t(lambda: alg.multivector(dict(zip(ks, vals)))), 'mapping int')
    check(t(lambda: alg.multivector({alg.bin2canon[k]: v for k, v in zip(ks, vals)})), 'mapping names')
    check(t(lambda: alg.multivector(**{alg.bin2canon[k]: v for k, v in zip(ks, vals)})), 'kw canonical')
    def kwperm():
        kw = {}
        for k, v in zip(ks, vals):
            name = alg.bin2canon[k]; g = list(name[1:]); rng.shuffle(g)
            par = perm_parity([name[1:].index(c) for c in g]); kw['e' + ''.join(g)] = -v if par else v
        return alg.multivector(**kw)
    check(t(kwperm), 'kw permuted')
    gs = tuple(sorted({bin(k).count('1') for k in ks}))
    full_for_grades = alg.indices_for_grades[gs]
    check(t(lambda: alg.multivector([truth.get(k, 0) for k in full_for_grades], grades=gs)), 'values+grades')
print({k: len(v) for k, v in fails.items()})
for k, v in fails.items(): print(k, str(v[0])[:300])
