import sys, random, time, traceback, warnings; warnings.simplefilter('ignore')
sys.path.insert(0, '/tmp/probe')
from gen import *; from fractions import Fraction as F
from kingdon import Algebra, MultiVector
import os; MODES = os.environ.get('MODES', 'sparse,grade,perm,single').split(','); INFIX = ['*', '|', '^', '&', '>>', '@', '+', '-', '/']
METH = ['gp','ip','sp','lc','rc','op','rp','sw','proj','cp','acp','add','sub','div']
UNM = ['reverse','involute','conjugate','inv','normsq','hodge','unhodge','polarity','unpolarity','dual','undual']
def gen_expr(rng, depth, args, regs):
    if depth == 0 or rng.random() < .2: return rng.choice(args)
    k = rng.random()
    a = gen_expr(rng, depth - 1, args, regs)
    if k < .3: return f'({a} {rng.choice(INFIX)} {gen_expr(rng, depth - 1, args, regs)})'
    if k < .45: return f'{a}.{rng.choice(METH)}({gen_expr(rng, depth - 1, args, regs)})'
    if k < .6: return f'{a}.{rng.choice(UNM)}()'
    if k < .66: return rng.choice([f'(~{a})', f'(-{a})'])
    if k < .72: return f'{a}.grade({", ".join(map(str, sorted(rng.sample(range(4), rng.randint(1, 2)))))})'
    if k < .84:
        n = rng.choice(['2', '3', '-1', '0.5', 'F(1,2)', '7'])
        return rng.choice([f'({a} + {n})', f'({n} + {a})', f'({a} - {n})', f'({n} - {a})', f'({a} * {n})', f'({n} * {a})', f'({a} / {n})'])
    if k < .92: return f'({a} ** {rng.choice([0, 1, 2, 3])})'
    if regs: 
        r = rng.choice(regs); return f'{r[0]}({", ".join(gen_expr(rng, depth - 1, args, regs) for _ in range(r[1]))})'
    return a
def D(m): return {k: v for k, v in m.items() if v != 0} if isinstance(m, MultiVector) else ({0: m} if m != 0 else {})
def close(g, e): return set(g) == set(e) and all(abs(complex(g[k]) - complex(e[k])) <= 1e-9 * (1 + abs(complex(e[k]))) for k in g)
def run(seed, n, symbolic):
    rng = random.Random(seed); fails = {}; cnt = 0; nraise = 0
    for it in range(n):
        d = rng.randint(1, 3); sig = [rng.choice([1, 1, -1, 0]) for _ in range(d)]; alg = Algebra(signature=sig)
        nargs = rng.randint(1, 3); args = ['a', 'b', 'c'][:nargs]
        ns = {'F': F}; regs = []
        # helper registered function
        if rng.random() < .5:
            src = f'def h(p, q): return {gen_expr(rng, 1, ["p", "q"], [])}'
            exec(src, ns); plain_h = ns['h']; ns['h_plain'] = plain_h
            regs = [('h', 2)]
        depth = rng.randint(1, 3 if not symbolic else 2)
        body = gen_expr(rng, depth, args, regs)
        src = f'def f({", ".join(args)}): return {body}'
        mvs = []
        for _ in args:
            ks = rand_keys(rng, d, rng.choice(MODES))[:5] or (0,)
            mvs.append(MultiVector.fromkeysvalues(alg, ks, [F(rng.randint(1, 5), rng.randint(1, 3)) for _ in ks]))
        cnt += 1
        try:
            nsp = dict(ns); exec(src, nsp); 
            try: plain = ('ok', D(nsp['f'](*mvs)))
            except Exception as e: plain = ('exc', type(e).__name__)
            nsr = dict(ns)
            if regs: nsr['h'] = alg.register(symbolic=symbolic)(plain_h) if symbolic else alg.register(plain_h)
            exec(src, nsr); fr = alg.register(symbolic=symbolic)(nsr['f']) if symbolic else alg.register(nsr['f'])
            try: reg = ('ok', D(fr(*mvs)))
            except Exception as e: reg = ('exc', type(e).__name__, str(e)[:70], traceback.format_exc().splitlines()[-3:])
            if plain[0] == 'exc': nraise += 1; continue
            if reg[0] == 'exc': fails.setdefault(('raises', reg[1], reg[2]), []).append((src, sig, [tuple(m.keys()) for m in mvs], reg[3])); continue
            if not close(reg[1], plain[1]): fails.setdefault(('value',), []).append((src, regs and inspect_src(plain_h), sig, [dict(m.items()) for m in mvs], reg[1], plain[1]))
        except Exception as e:
            fails.setdefault(('harness', type(e).__name__, str(e)[:60]), []).append((src,))
    return cnt, fails, nraise
def inspect_src(f):
    import inspect
    try: return inspect.getsource(f)
    except Exception: return '?'
t = time.time(); cnt, fails, nr = run(int(sys.argv[1]), int(sys.argv[2]), sys.argv[3] == 'sym'); print('programs', cnt, 'plain raised', nr, round(time.time() - t, 1))
for k, v in sorted(fails.items(), key=lambda kv: -len(kv[1])): print(k, len(v), str(v[0])[:600])
