import sys, random, time, traceback, warnings, math; warnings.simplefilter('ignore')
sys.path.insert(0, '/tmp/probe')
from refops import *; from kingdon import Algebra, MultiVector
import numpy as np, sympy
def exact_exp(ref, rx, N=40):
    term = {0: F(1)}; tot = {0: F(1)}
    for k in range(1, N):
        term = ref.scale(ref.gp(term, rx), F(1, k)); tot = ref.add(tot, term)
    return tot
def close(g, e, tol=1e-9):
    return all(abs(complex(g.get(k, 0)) - complex(e.get(k, 0))) <= tol * (1 + abs(complex(e.get(k, 0)))) for k in set(g) | set(e))
def run(seed, n):
    rng = random.Random(seed); fails = {}; cnt = 0; cls = {}
    for it in range(n):
        d = rng.randint(1, 4); sig = [rng.choice([1, -1, 0]) for _ in range(d)]
        alg = Algebra(signature=sig); ref = R(d, lambda i, j: alg.signs[i, j])
        # simple element: vector, or scaled basis blade
        if rng.random() < .6: ks = tuple(1 << j for j in range(d))
        else: ks = (rng.randrange(1, 2**d),)
        vs = [F(rng.randint(-8, 8), 4) for _ in ks]; rx = dict(zip(ks, vs))
        sq = clean(ref.gp(rx, rx)); assert set(sq) <= {0}
        s = sq.get(0, 0); cls[(s > 0) - (s < 0)] = cls.get((s > 0) - (s < 0), 0) + 1
        e = {k: float(v) for k, v in exact_exp(ref, rx).items()}
        for tname, conv in (('float', float), ('int', lambda v: int(v) if v.denominator == 1 else float(v)), ('np.float64', lambda v: np.float64(float(v))), ('complex', lambda v: complex(float(v)))):
            cnt += 1
            try:
                x = MultiVector.fromkeysvalues(alg, ks, [conv(v) for v in vs]); g = dict(x.exp().items())
                if not close(g, e): fails.setdefault(('exp', tname, 'value', (s > 0) - (s < 0)), []).append((sig, ks, vs, g, e))
            except Exception as ex: fails.setdefault(('exp', tname, type(ex).__name__, str(ex)[:60]), []).append((sig, ks, vs))
        # symbolic
        cnt += 1
        try:
            syms = [sympy.Symbol(f'x{k}') for k in ks]; x = MultiVector.fromkeysvalues(alg, ks, syms)
            r = x.exp(); env = {sy: float(v) for sy, v in zip(syms, vs)}
            g = {k: complex(sympy.N(sympy.sympify(v).subs(env))) for k, v in r.items()}
            if not close(g, e, 1e-7): fails.setdefault(('exp', 'sympy', 'value', (s > 0) - (s < 0)), []).append((sig, ks, vs, g, e))
        except Exception as ex: fails.setdefault(('exp', 'sympy', type(ex).__name__, str(ex)[:60]), []).append((sig, ks, vs))
        # sqrt of Study number a + B
        a = F(rng.randint(1, 9), 2); bs = [F(rng.randint(-4, 4), 4) for _ in ks]
        rb = dict(zip(ks, bs)); b2 = clean(ref.gp(rb, rb)).get(0, 0)
        if b2 > 0: a = a + abs(b2) + 1
        if 0 not in ks:
            cnt += 1
            try:
                x = MultiVector.fromkeysvalues(alg, (0,) + ks, [float(a)] + [float(v) for v in bs]); r = x.sqrt(); g = dict((r * r).items())
                if not close(g, {0: float(a), **{k: float(v) for k, v in rb.items()}}): fails.setdefault(('sqrt', 'value', (b2 > 0) - (b2 < 0)), []).append((sig, ks, a, bs, g))
                h = dict((x ** 0.5).items())
                if not close(h, dict(r.items())): fails.setdefault(('pow.5',), []).append((sig, ks))
                nx = x.normalized(); ns = dict(nx.normsq().items())
                n2 = dict(x.normsq().items())
                if n2.get(0, 0) > 0 and set(k for k, v in n2.items() if abs(v) > 1e-12) <= {0} | set():
                    if not close(ns, {0: 1.0}): fails.setdefault(('normalized',), []).append((sig, ks, a, bs, ns, n2))
            except Exception as ex: fails.setdefault(('sqrt', type(ex).__name__, str(ex)[:60]), []).append((sig, ks, a, bs))
        # integer powers
        xs = {0: a, **rb} if 0 not in ks else rb
        x = MultiVector.fromkeysvalues(alg, tuple(xs), list(xs.values()))
        for p in (-3, -2, -1, 0, 1, 2, 3):
            cnt += 1
            try:
                inv = ref.inv(xs)
                if p < 0 and inv is None: continue
                base = xs if p >= 0 else inv; e2 = {0: F(1)}
                for _ in range(abs(p)): e2 = ref.gp(e2, base)
                g = dict((x ** p).items())
                if not eq(g, e2): fails.setdefault(('pow', p), []).append((sig, xs, g, clean(e2)))
            except Exception as ex: fails.setdefault(('pow', p, type(ex).__name__, str(ex)[:60]), []).append((sig, xs))
        # outer series on scalar-free operand
        ko = tuple(k for k in rng.sample(range(1, 2**d), min(2**d - 1, rng.randint(1, 4))))
        vo = [F(rng.randint(-3, 3) or 1, rng.randint(1, 2)) for _ in ko]; ro = dict(zip(ko, vo)); xo = MultiVector.fromkeysvalues(alg, ko, list(vo))
        W = [{0: F(1)}]; 
        for k in range(1, d + 1): W.append(ref.scale(ref.op(W[-1], ro), F(1, k)))
        tot = {}; odd = {}; even = {}
        for k, w in enumerate(W):
            tot = ref.add(tot, w); (odd if k % 2 else even).update(ref.add(odd if k % 2 else even, w))
        for nm, e3 in (('outerexp', tot), ('outersin', odd), ('outercos', even)):
            cnt += 1
            try:
                g = dict(getattr(xo, nm)().items())
                if not close({k: float(v) for k, v in g.items()}, {k: float(v) for k, v in e3.items()}, 1e-12): fails.setdefault((nm, 'value'), []).append((sig, ko, vo, g, clean(e3)))
            except Exception as ex: fails.setdefault((nm, type(ex).__name__, str(ex)[:60]), []).append((sig, ko, vo))
        cnt += 1
        try:
            tn = xo.outertan(); lhs = dict((tn * xo.outercos()).items())
            if not close({k: float(v) for k, v in lhs.items()}, {k: float(v) for k, v in odd.items()}, 1e-9): fails.setdefault(('outertan',), []).append((sig, ko, vo))
        except ZeroDivisionError: pass
        except Exception as ex: fails.setdefault(('outertan', type(ex).__name__, str(ex)[:60]), []).append((sig, ko, vo))
    return cnt, fails, cls
t = time.time(); cnt, fails, cls = run(int(sys.argv[1]), int(sys.argv[2])); print('cases', cnt, cls, round(time.time() - t, 1))
for k, v in fails.items(): print(k, len(v), str(v[0])[:420])
