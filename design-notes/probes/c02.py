import sys, random, time, traceback
sys.path.insert(0, '/tmp/probe')
from refops import *; from gen import *
from kingdon import Algebra, MultiVector
from itertools import product
import warnings
warnings.simplefilter('ignore')

BIN = ['gp','op','ip','lc','rc','sp','cp','acp','add','sub','rp','sw','proj']
UN = ['neg','reverse','involute','conjugate','normsq','hodge','unhodge']
def run(seed, dmax=4, n=300, **opts):
    rng = random.Random(seed)
    fails = {}
    cnt = 0
    for it in range(n):
        d = rng.randint(0, dmax)
        sig = [rng.choice([1, -1, 0]) for _ in range(d)]
        alg = Algebra(signature=sig, **opts) if d or True else None
        T = lambda i, j: alg.signs[i, j]
        ref = R(d, T)
        for _ in range(6):
            ka, kb = rand_keys(rng, d), rand_keys(rng, d)
            va, vb = rand_vals(rng, ka), rand_vals(rng, kb)
            a = MultiVector.fromkeysvalues(alg, ka, list(va)); b = MultiVector.fromkeysvalues(alg, kb, list(vb))
            ra, rb = dict(zip(ka, va)), dict(zip(kb, vb))
            for op in BIN + UN:
                cnt += 1
                try:
                    if op in BIN:
                        got = getattr(a, op)(b); exp = getattr(ref, op)(ra, rb)
                    else:
                        got = getattr(a, op)(); exp = getattr(ref, op)(ra)
                    g = dict(got.items())
                    assert len(g) == len(got.keys()), 'dup keys'
                    if not eq(g, exp):
                        fails.setdefault((op, 'value'), []).append((sig, ka, va, kb, vb, g, clean(exp)))
                except Exception as e:
                    key = (op, type(e).__name__, str(e)[:60])
                    fails.setdefault(key, []).append((sig, ka, kb, traceback.format_exc().splitlines()[-3:]))
    return cnt, fails

if __name__ == '__main__':
    t = time.time()
    cnt, fails = run(int(sys.argv[1]) if len(sys.argv) > 1 else 0, dmax=int(sys.argv[2]) if len(sys.argv) > 2 else 4)
    print('cases', cnt, 'time', time.time() - t)
    for k, v in fails.items():
        print(k, len(v)); print('   ', v[0])
