import sys, random, time, traceback, warnings; warnings.simplefilter('ignore')
sys.path.insert(0, '/tmp/probe')
from ring import Q; from refops import R, eq, clean; from gen import rand_keys
from kingdon import Algebra, MultiVector
def run(seed, n, dmax):
    rng = random.Random(seed); fails = {}; cnt = 0; dropped = 0
    for it in range(n):
        d = rng.randint(0, dmax); sig = [rng.choice([1, -1, 0]) for _ in range(d)]
        alg = Algebra(signature=sig); ref = R(d, lambda i, j: alg.signs[i, j])
        for _ in range(4):
            ka, kb = rand_keys(rng, d), rand_keys(rng, d)
            if d >= 4: ka, kb = ka[:6], kb[:6]
            va = [Q.var(f'a{k}') for k in ka]; vb = [Q.var(f'b{k}') for k in kb]
            a = MultiVector.fromkeysvalues(alg, ka, va); b = MultiVector.fromkeysvalues(alg, kb, vb); ra, rb = dict(zip(ka, va)), dict(zip(kb, vb))
            for op in ('sw', 'proj', 'normsq', 'gp', 'rp', 'cp', 'sub'):
                cnt += 1
                try:
                    got = getattr(a, op)(b) if op != 'normsq' else a.normsq()
                    exp = getattr(ref, op)(ra, rb) if op != 'normsq' else ref.normsq(ra)
                    g = dict(got.items())
                    if not eq(g, exp): fails.setdefault((op, 'generic mismatch'), []).append((sig, ka, kb))
                    dropped += len(set(k for k in range(2**d)) - set(g))  # blades absent from result: must be identically zero in exp (checked by eq)
                except Exception as e:
                    fails.setdefault((op, type(e).__name__, str(e)[:80]), []).append((sig, ka, kb, traceback.format_exc().splitlines()[-3:]))
    return cnt, fails
t = time.time(); cnt, fails = run(int(sys.argv[1]), int(sys.argv[2]), int(sys.argv[3])); print('cases', cnt, round(time.time() - t, 1))
for k, v in fails.items(): print(k, len(v), str(v[0])[:500])
