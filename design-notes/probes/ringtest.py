import sys, time, warnings; warnings.simplefilter('ignore')
sys.path.insert(0, '/tmp/probe')
from ring import Q
from refops import R, eq
from kingdon import Algebra, MultiVector
import random
rng = random.Random(1)
for sig in ([1, 1, 0], [1, -1, 1, 0]):
    d = len(sig); alg = Algebra(signature=sig); ref = R(d, lambda i, j: alg.signs[i, j])
    ka = tuple(rng.sample(range(2**d), 5)); kb = tuple(rng.sample(range(2**d), 6))
    va = [Q.var(f'a{k}') for k in ka]; vb = [Q.var(f'b{k}') for k in kb]
    a = MultiVector.fromkeysvalues(alg, ka, va); b = MultiVector.fromkeysvalues(alg, kb, vb)
    ra, rb = dict(zip(ka, va)), dict(zip(kb, vb))
    for op in ['gp', 'op', 'ip', 'cp', 'rp', 'sw', 'proj', 'sub', 'div']:
        t = time.time()
        try:
            got = dict(getattr(a, op)(b).items())
            if op == 'div':
                # check (a/b)*b == a generically
                back = ref.gp(got, rb); ok = eq(back, ra)
            else:
                exp = getattr(ref, op)(ra, rb); ok = eq(got, exp)
            print(sig, op, 'ok' if ok else 'MISMATCH', 'issym', a.issymbolic, round(time.time() - t, 3))
        except Exception as e:
            print(sig, op, 'EXC', type(e).__name__, str(e)[:100])
    t = time.time(); ai = a.inv(); g = ref.gp(ra, dict(ai.items())); print('inv generic', {k: v for k, v in g.items() if v != 0}.keys(), round(time.time() - t, 2))
