import sys, random, itertools, time
sys.path.insert(0, '/tmp/probe')
from ref import *
from kingdon import Algebra
rng = random.Random(3)
t=time.time()
for d in (7, 8):
    for rep in range(3):
        sig = [rng.choice([1,-1,0]) for _ in range(d)]
        start = rng.choice([0,1,2])
        gens, metric, names = default_config(sig, start)
        ref = Ref(gens, metric, names)
        alg = Algebra(signature=sig, start_index=start)
        bad = 0
        for _ in range(3000):
            a, b = rng.choice(names), rng.choice(names)
            s, n = ref.mul_names(a, b)
            got = alg.signs[alg.canon2bin[a], alg.canon2bin[b]]
            if got != s or (s and alg.canon2bin[n] != alg.canon2bin[a]^alg.canon2bin[b]): bad += 1
        # blades via getitem with permuted spelling
        for _ in range(200):
            a = rng.choice(names[1:])
            sp = list(a[1:]); rng.shuffle(sp); sp = 'e' + ''.join(sp)
            s, n = ref.name_sign(sp[1:])
            mv = alg.blades[sp]
            if dict(mv.items()) != {alg.canon2bin[n]: s}: bad += 1; print(sp, dict(mv.items()), s, n)
        print(d, sig, start, 'bad', bad, time.time()-t)
# custom d=5 p,q,r ctor
alg = Algebra.fromname('STAP'); print(alg.signature, alg.start_index, alg.d)
