import sys, random, time, traceback
from fractions import Fraction as F
from kingdon.polynomial import Polynomial, RationalPolynomial
import sympy
VARS = ['a', 'a1', 'a12', 'b', 'b2']
# reference: numerator/denominator as dict {tuple(sorted var multiset)} -> Fraction
def padd(p, q):
    r = dict(p)
    for m, c in q.items():
        r[m] = r.get(m, 0) + c
        if r[m] == 0: del r[m]
    return r
def pmul(p, q):
    r = {}
    for m1, c1 in p.items():
        for m2, c2 in q.items():
            m = tuple(sorted(m1 + m2)); r[m] = r.get(m, 0) + c1 * c2
            if r[m] == 0: del r[m]
    return r
def pneg(p): return {m: -c for m, c in p.items()}
def peval(p, env):
    t = F(0)
    for m, c in p.items():
        v = F(c)
        for x in m: v *= env[x]
        t += v
    return t
class Q:  # reference rational function
    def __init__(s, n, d=None): s.n = n; s.d = d if d is not None else {(): F(1)}
    def __add__(s, o): return Q(padd(pmul(s.n, o.d), pmul(o.n, s.d)), pmul(s.d, o.d))
    def __neg__(s): return Q(pneg(s.n), s.d)
    def __sub__(s, o): return s + (-o)
    def __mul__(s, o): return Q(pmul(s.n, o.n), pmul(s.d, o.d))
    def inv(s): return Q(s.d, s.n)
    def iszero(s): return not s.n
    def ev(s, env): return peval(s.n, env) / peval(s.d, env)
def const(c): return Q({(): F(c)} if c else {})
def var(v): return Q({(v,): F(1)})

def gen(rng, depth):
    """returns (kingdon value, ref Q, description)"""
    if depth == 0 or rng.random() < .25:
        if rng.random() < .7:
            v = rng.choice(VARS); return RationalPolynomial.fromname(v), var(v), v
        c = rng.randint(-3, 3); return RationalPolynomial([[c]]), const(c), str(c)
    op = rng.choice(['+', '-', '*', '*', '/', 'neg', 'pow', 'ladd', 'lmul', 'rsub', 'rdiv', 'divint'])
    x, rx, dx = gen(rng, depth - 1)
    if op == 'neg': return -x, -rx, f'-({dx})'
    if op == 'pow':
        n = rng.randint(1, 3); r = rx
        for _ in range(n - 1): r = r * rx
        return x ** n, r, f'({dx})**{n}'
    if op == 'ladd': c = rng.randint(-3, 3); return c + x, const(c) + rx, f'{c}+({dx})'
    if op == 'lmul': c = rng.randint(-3, 3); return c * x, const(c) * rx, f'{c}*({dx})'
    if op == 'rsub': c = rng.randint(-3, 3); return c - x, const(c) - rx, f'{c}-({dx})'
    if op == 'rdiv':
        if rx.iszero(): return x, rx, dx
        c = rng.randint(-3, 3); return c / x, const(c) * rx.inv(), f'{c}/({dx})'
    if op == 'divint':
        c = rng.choice([-2, -1, 1, 2, 4]); return x / c, rx * const(F(1, c)), f'({dx})/{c}'
    y, ry, dy = gen(rng, depth - 1)
    if op == '+': return x + y, rx + ry, f'({dx})+({dy})'
    if op == '-': return x - y, rx - ry, f'({dx})-({dy})'
    if op == '*': return x * y, rx * ry, f'({dx})*({dy})'
    if op == '/':
        if ry.iszero(): return x, rx, dx
        return x / y, rx * ry.inv(), f'({dx})/({dy})'

def run(seed, n):
    rng = random.Random(seed); fails = {}; nz = 0
    for i in range(n):
        try:
            k, r, desc = gen(rng, rng.randint(1, 4))
        except Exception as e:
            fails.setdefault(('gen', type(e).__name__, str(e)[:80]), []).append(traceback.format_exc().splitlines()[-4:]); continue
        try:
            z = r.iszero(); nz += z
            if not isinstance(k, (RationalPolynomial, Polynomial)):
                if k == 0 and z: continue
                fails.setdefault(('type', type(k).__name__), []).append(desc); continue
            if bool(k) == z: fails.setdefault(('bool', z), []).append((desc, str(k)))
            if (k == 0) != z: fails.setdefault(('eq0', z), []).append((desc, str(k)))
            for _ in range(3):
                env = {v: F(rng.randint(-7, 7), rng.randint(1, 5)) for v in VARS}
                if peval(r.d, env) == 0 or peval(k.denom.tosympy().as_poly(*[sympy.Symbol(v) for v in VARS]).as_dict() and {} or {}, env) != 0: pass
                if peval(r.d, env) == 0: continue
                se = k.tosympy()
                dv = sympy.sympify(k.denom.tosympy()).subs({sympy.Symbol(v): sympy.Rational(env[v].numerator, env[v].denominator) for v in VARS})
                if dv == 0: continue
                val = sympy.sympify(se).subs({sympy.Symbol(v): sympy.Rational(env[v].numerator, env[v].denominator) for v in VARS})
                ex = r.ev(env)
                if abs(float(val) - float(ex)) > 1e-9 * (1 + abs(float(ex))):
                    fails.setdefault(('value',), []).append((desc, str(k), env, val, ex))
        except Exception as e:
            fails.setdefault(('chk', type(e).__name__, str(e)[:80]), []).append((desc, traceback.format_exc().splitlines()[-4:]))
    return fails, nz
if __name__ == '__main__':
    t = time.time(); fails, nz = run(int(sys.argv[1]), int(sys.argv[2])); print('time', time.time() - t, 'zeros', nz)
    for k, v in fails.items(): print(k, len(v)); print('   ', v[0])
