import sys, random, warnings, time, traceback; warnings.simplefilter('ignore')
sys.path.insert(0, '/tmp/probe')
from gen import *; import numpy as np, sympy
from fractions import Fraction as F
from kingdon import Algebra, MultiVector
from kingdon.matrixreps import expr_as_matrix
PROGS = ['R*x', 'x*R', 'R>>x', 'R.cp(x)', 'R|x', 'R^x', 'R&x', '~x', 'x.hodge()', '(R*x).grade(1)', 'R*x*R', 'x + R*x', 'R.acp(x)', 'x.lc(R)', '(R*x).grade(0,2)', 'x - 2*x', 'R.sp(x)']
def run(seed, n):
    rng = random.Random(seed); fails = {}; cnt = 0
    for it in range(n):
        d = rng.randint(1, 3); sig = [rng.choice([1, 1, -1, 0]) for _ in range(d)]; alg = Algebra(signature=sig)
        kx = rand_keys(rng, d, rng.choice(['sparse', 'grade', 'perm']))[:4] or (1,); kR = rand_keys(rng, d, rng.choice(['sparse', 'grade']))[:4] or (0,)
        x = alg.multivector(name='x', keys=kx)
        mode = rng.choice(['sym', 'num', 'arr'])
        if mode == 'sym': R = alg.multivector(name='R', keys=kR)
        elif mode == 'num': R = MultiVector.fromkeysvalues(alg, kR, [float(rng.randint(-4, 4)) / 2 for _ in kR])
        else: R = MultiVector.fromkeysvalues(alg, kR, np.array([[rng.randint(-4, 4) / 2 for _ in range(3)] for _ in kR]))
        prog = rng.choice(PROGS); f = eval(f'lambda R, x: {prog}')
        res_like = None
        if rng.random() < .3:
            kk = rand_keys(rng, d, 'sparse')[:3] or (1,); res_like = MultiVector.fromkeysvalues(alg, kk, [1] * len(kk))
        cnt += 1
        try:
            A, y = expr_as_matrix(f, R, x, res_like=res_like)
            if mode != 'arr':
                ydirect = f(R, x)
                if res_like is None:
                    dd = {k: sympy.expand(sympy.sympify(v)) for k, v in ydirect.items()}; yy = {k: sympy.expand(sympy.sympify(v)) for k, v in y.items()}
                    if {k: v for k, v in dd.items() if v != 0} != {k: v for k, v in yy.items() if v != 0}: fails.setdefault(('y != f', mode), []).append((prog, sig, kR, kx))
                else:
                    if tuple(y.keys()) != tuple(res_like.keys()): fails.setdefault(('res_like keys', mode), []).append((prog, sig))
                    for k, v in y.items():
                        if sympy.expand(sympy.sympify(v) - sympy.sympify(getattr(ydirect, alg.bin2canon[k]))) != 0: fails.setdefault(('res_like val', mode), []).append((prog, sig))
                Am = sympy.Matrix(np.array(A).tolist()) if isinstance(A, np.ndarray) else A
                xv = sympy.Matrix(list(x.values()))
                if len(y):
                    diff = [sympy.nsimplify(sympy.expand(a - sympy.sympify(b)), rational=True) for a, b in zip(Am * xv, y.values())]
                    if any(abs(sympy.N(c)) > 1e-9 if c.is_number else True for c in diff if c != 0): fails.setdefault(('A.x != y', mode), []).append((prog, sig, kR, kx, diff))
            else:
                for idx in range(3):
                    Ri = R[idx]; Ai = [[(e[idx] if hasattr(e, '__len__') else e) for e in row] for row in A]
                    yi = f(Ri, x)
                    xv = sympy.Matrix(list(x.values())); Ax = sympy.Matrix(Ai) * xv if Ai and Ai[0] else []
                    ykeys = list(y.keys())
                    for r, k in enumerate(ykeys):
                        e = sympy.sympify(getattr(yi, alg.bin2canon[k]))
                        if abs(sympy.N(sympy.expand(Ax[r] - e).subs({s: 1.37 for s in x.values()}))) > 1e-9: fails.setdefault(('arr A.x != y', ), []).append((prog, sig, kR, kx)); break
        except Exception as e:
            fails.setdefault((mode, prog, type(e).__name__, str(e)[:50]), []).append((sig, kR, kx, res_like is not None, traceback.format_exc().splitlines()[-3:]))
    return cnt, fails
t = time.time(); cnt, fails = run(int(sys.argv[1]), int(sys.argv[2])); print('cases', cnt, round(time.time() - t, 1))
for k, v in sorted(fails.items(), key=lambda kv: -len(kv[1]))[:12]: print(k, len(v), str(v[0])[:330])
