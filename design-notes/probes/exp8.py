import warnings; warnings.simplefilter('ignore')
import numpy as np, sympy
from fractions import Fraction as F
from kingdon import Algebra, MultiVector
def t(label, f):
    try: print(label, '->', f())
    except Exception as e: print(label, 'EXC', type(e).__name__, str(e)[:200])
D = lambda m: dict(m.items()) if isinstance(m, MultiVector) else m
def series(x, n=40):
    alg = x.algebra; term = alg.scalar([1.0]); tot = alg.scalar([1.0])
    for k in range(1, n):
        term = term * x / k; tot = tot + term
    return tot
A = Algebra(1, 1)
t('hyperbolic float e12 (sq +1)', lambda: (D(A.bivector([0.7]).exp()), D(series(A.bivector([0.7])))))
t('hyperbolic vector e1', lambda: (D(A.vector([0.7, 0.2]).exp()), D(series(A.vector([0.7, 0.2])))))
t('neg sq vector', lambda: (D(A.vector([0.2, 0.7]).exp()), D(series(A.vector([0.2, 0.7])))))
t('null', lambda: (D(A.vector([0.7, 0.7]).exp()), D(series(A.vector([0.7, 0.7])))))
t('int coeffs hyperbolic', lambda: D(A.bivector([1]).exp()))
t('np array hyperbolic', lambda: D(A.bivector([np.array([0.7, 0.3])]).exp()))
t('np array elliptic', lambda: D(Algebra(2).bivector([np.array([0.7, 0.3])]).exp()))
t('np 0-d array/np.float64 hyperbolic', lambda: D(A.bivector([np.float64(0.7)]).exp()))
t('ndarray-backed values hyperbolic', lambda: D(A.bivector(np.array([0.7])).exp()))
t('ndarray-backed values elliptic', lambda: D(Algebra(2).bivector(np.array([0.7])).exp()))
t('ndarray-backed 2D elliptic', lambda: D(Algebra(2).bivector(np.array([[0.7, 0.1]])).exp()))
t('complex', lambda: D(A.bivector([0.7+0.2j]).exp()))
t('Fraction hyperbolic', lambda: D(A.bivector([F(1,2)]).exp()))
s = A.bivector(name='B'); t('symbolic hyperbolic', lambda: D(s.exp()))
t('symbolic hyperbolic eval', lambda: D(s.exp()(0.7)))
t('scalar exp', lambda: D(A.scalar([0.5]).exp()))
t('scalar+pss non simple', lambda: D(Algebra(2).multivector(e=1.0, e12=2.0).exp()))
# sqrt
G = Algebra(3)
x = G.multivector(e=2.0, e12=0.5, e13=0.25)
t('sqrt study', lambda: (D(x.sqrt() * x.sqrt()), D(x)))
t('sqrt scalar', lambda: D(G.scalar([4.0]).sqrt()))
t('x**0.5', lambda: D(x ** 0.5))
t('sqrt scalar+pss', lambda: (lambda y: (D(y.sqrt() * y.sqrt()), D(y)))(G.multivector(e=2.0, e123=0.5)))
P = Algebra(1, 1)
t('sqrt scalar+hyperbolic', lambda: (lambda y: (D(y.sqrt() * y.sqrt()), D(y)))(P.multivector(e=2.0, e12=0.5)))
t('sqrt scalar+vector', lambda: (lambda y: (D(y.sqrt() * y.sqrt()), D(y)))(G.multivector(e=2.0, e1=0.5)))
t('sqrt symbolic', lambda: D(G.multivector(name='a', keys=(0, 3)).sqrt()))
t('sqrt with sympy symbolcls', lambda: D(Algebra(3, codegen_symbolcls=sympy.Symbol).multivector(e=2.0, e12=0.5).sqrt()))
t('sqrt np arrays', lambda: D(G.multivector(e=np.array([2.0, 3.0]), e12=np.array([0.5, 1.0])).sqrt()))
t('normalized', lambda: D(G.multivector(e1=3.0, e2=4.0).normalized()))
t('normalized bivector 4d', lambda: (lambda b: D(b.normalized().normsq()))(Algebra(4).bivector([1.,2.,3.,4.,5.,6.])))
t('outertan', lambda: D(Algebra(4).bivector([F(1),F(2),F(3),F(4),F(5),F(6)]).outertan()))
