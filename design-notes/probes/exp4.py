import warnings; warnings.simplefilter('ignore')
from fractions import Fraction as F
from kingdon import Algebra, MultiVector
def t(label, f):
    try: print(label, '->', f())
    except Exception as e: print(label, 'EXC', type(e).__name__, str(e)[:200])
D = lambda m: dict(m.items()) if isinstance(m, MultiVector) else m
ident = lambda f: f
def wrap(f):
    def g(*a): return f(*a)
    g.__name__ = f.__name__
    return g
# (a) wrapper + key order
for W in (None, wrap):
    alg = Algebra(3, wrapper=W)
    a1 = MultiVector.fromkeysvalues(alg, (1, 2), [F(1), F(10)]); a2 = MultiVector.fromkeysvalues(alg, (2, 1), [F(10), F(1)])
    b = MultiVector.fromkeysvalues(alg, (1, 4), [F(3), F(7)])
    r1 = D(a1 * b); r2 = D(a2 * b); r1b = D(a1 * b)
    print('wrapper', W, 'a1*b', r1, 'a2*b', r2, 'a1*b again', r1b)
# (b) registered function calling ops by name, key order
alg = Algebra(3)
a1 = MultiVector.fromkeysvalues(alg, (1, 2), [F(1), F(10)]); a2 = MultiVector.fromkeysvalues(alg, (2, 1), [F(10), F(1)])
b = MultiVector.fromkeysvalues(alg, (1, 4), [F(3), F(7)])
@alg.register
def prod(x, y): return x * y
print('reg a1', D(prod(a1, b)), 'plain', D(a1 * b))
print('reg a2', D(prod(a2, b)), 'plain', D(a2 * b))
print('reg a1 again', D(prod(a1, b)))
# (c) same-named registered functions
alg = Algebra(2)
u = alg.multivector(e1=F(1), e2=F(2))
def mk(k):
    def f(x): return k * x
    return f
f2 = alg.register(mk(2)); 
@alg.register
def g(x): return f2(x) + x
print('g before', D(g(u)))
f3 = alg.register(mk(3)); print('f3', D(f3(u)), 'f2', D(f2(u)))
print('g after ', D(g(u)))
# (d) failing call then retry
alg = Algebra(2)
z = alg.multivector(e1=F(0))
t('inv singular', lambda: D(z.inv()))
t('inv ok after', lambda: D(alg.multivector(e1=F(2)).inv()))
t('inv singular again', lambda: D(z.inv()))
