import sys, random, itertools
sys.path.insert(0, '/tmp/probe')
from ref import *
from kingdon import Algebra
import numpy as np

def check(alg, ref, tag):
    bad = []
    names = ref.names
    assert list(alg.canon2bin.keys()) == names, (tag, list(alg.canon2bin.keys())[:8], names[:8])
    for a, b in product(names, repeat=2):
        s, n = ref.mul_names(a, b)
        exp = '0' if s == 0 else ('-' if s < 0 else '') + n
        got = alg.cayley[a, b]
        if got != exp: bad.append(('cayley', a, b, got, exp))
        if alg.d <= 4:
            r = alg.blades[a] * alg.blades[b]
            got2 = {alg.bin2canon[k]: v for k, v in r.items() if v != 0}
            exp2 = {} if s == 0 else {n: s}
            if got2 != exp2: bad.append(('prod', a, b, got2, exp2))
    return bad

rng = random.Random(1)
nbad = 0; ncfg = 0
for d in range(0, 5):
    for sig in product([1, -1, 0], repeat=d):
        for start in (0, 1, 2):
            gens, metric, names = default_config(sig, start)
            if start + d > 10: continue
            ref = Ref(gens, metric, names)
            try:
                alg = Algebra(signature=list(sig), start_index=start)
            except Exception as e:
                print('ctor fail', sig, start, repr(e)); continue
            bad = check(alg, ref, (sig, start)); ncfg += 1
            if bad:
                nbad += 1; print('BAD', sig, start, bad[:3])
print('default configs', ncfg, 'bad', nbad)
