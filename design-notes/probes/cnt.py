import warnings; warnings.simplefilter('ignore')
import builtins, sympy, numpy as np
from fractions import Fraction as F
import kingdon.codegen as cg, kingdon.operator_dict as od
from kingdon import Algebra, MultiVector
events = []
_compile = builtins.compile
def counting_compile(src, fn, mode, *a, **k):
    events.append(('compile', fn)); return _compile(src, fn, mode, *a, **k)
cg.compile = counting_compile
for name in ('do_codegen', 'do_compile'):
    orig = getattr(od, name)
    def mk(orig, name):
        def w(codegen, *mvs):
            events.append((name, getattr(codegen, '__name__', '?'), tuple(m.keys() for m in mvs))); return orig(codegen, *mvs)
        return w
    setattr(od, name, mk(orig, name))
alg = Algebra(3)
def ev(): n = len(events); return n
x = alg.vector([1, 2, 3]); y = alg.bivector([1., 2., 3.])
for vals in ([1,2,3], [1.,2.,3.], [F(1),F(2),F(3)], np.arange(6.).reshape(3,2), sympy.symbols('p q r')):
    x = alg.vector(list(vals) if not isinstance(vals, np.ndarray) else vals)
    for op in ('gp', 'sw', 'div', 'proj'):
        n0 = len(events); r = getattr(x, op)(y); print(type(vals[0]).__name__, op, 'events', len(events) - n0, 'cache', len(getattr(alg, op)))
@alg.register
def f(a, b): return a * b + (a >> b)
n0 = len(events); f(x, y); print('reg first', len(events) - n0); n0 = len(events); f(alg.vector([5,6,7]), y); print('reg second', len(events) - n0)
