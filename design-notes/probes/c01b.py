import sys, random, itertools
sys.path.insert(0, '/tmp/probe')
from ref import *
from c01 import check
from kingdon import Algebra

def custom_config(rng, sig, start):
    d = len(sig)
    gnames = [format(start + j, 'x') for j in range(d)]
    metric = {g: s for g, s in zip(gnames, sig)}   # metric by NAME: signature[name - start]
    order = gnames[:]; rng.shuffle(order)          # bit order = order of appearance among grade-1
    names = ['e']
    for k in range(1, d + 1):
        if k == 1:
            grade = ['e' + g for g in order]
        else:
            grade = []
            for c in combinations(gnames, k):
                c = list(c); rng.shuffle(c); grade.append('e' + ''.join(c))
            rng.shuffle(grade)
        names += grade
    return order, metric, names

rng = random.Random(2)
nbad = ncfg = 0
for d in range(1, 5):
    for sig in product([1, -1, 0], repeat=d):
        for start in (0, 1, 2):
            for rep in range(3):
                gens, metric, names = custom_config(rng, sig, start)
                ref = Ref(gens, metric, names)
                try:
                    alg = Algebra(signature=list(sig), basis=names)
                except Exception as e:
                    print('ctor fail', sig, start, names, repr(e)); continue
                bad = check(alg, ref, (sig, start, names)); ncfg += 1
                if bad:
                    nbad += 1
                    if nbad < 10: print('BAD', sig, start, names, bad[:3])
print('custom configs', ncfg, 'bad', nbad)
