"""Independent reference Clifford algebra over generator NAMES, Fractions."""
from fractions import Fraction
from itertools import combinations, permutations, product
import random

def perm_parity(seq):
    """parity (0 even,1 odd) of the permutation sorting seq (distinct items)"""
    seq = list(seq); inv = 0
    for i in range(len(seq)):
        for j in range(i+1, len(seq)):
            if seq[i] > seq[j]: inv += 1
    return inv & 1

class Ref:
    """gens: list of generator names (single chars) in BIT ORDER (bit j <-> gens[j]); metric: dict name->square.
    spell: dict frozenset(names)->spelling string (without leading e) fixing the orientation of the named blade;"""
    def __init__(self, gens, metric, names):
        self.gens = list(gens); self.metric = dict(metric)
        self.pos = {g: j for j, g in enumerate(self.gens)}
        self.names = list(names)      # canonical names in basis order, e.g. 'e31'
        self.byset = {frozenset(n[1:]): n for n in self.names}
        self.d = len(gens)
    def word_mul(self, w1, w2):
        """multiply two words (sequences of generator names); return (sign, frozenset) ; sign may be 0"""
        w = list(w1) + list(w2); sign = 1
        # bubble sort by position w/ cancellation
        changed = True
        while changed:
            changed = False
            for i in range(len(w) - 1):
                a, b = w[i], w[i+1]
                if a == b:
                    sign *= self.metric[a]; del w[i:i+2]; changed = True; break
                if self.pos[a] > self.pos[b]:
                    w[i], w[i+1] = b, a; sign = -sign; changed = True
        return sign, tuple(w)
    def name_sign(self, spelling):
        """blade spelled `spelling` (string of gens, distinct) = s * canonical-named blade; return (s, canonical name)"""
        name = self.byset[frozenset(spelling)]
        # both words sorted: parity difference
        s1, sw = self.word_mul(spelling, '')
        s2, sw2 = self.word_mul(name[1:], '')
        assert sw == sw2
        return s1 * s2, name
    def mul_names(self, n1, n2):
        """product of named blades (any spelling) -> (sign, canonical name)"""
        s, w = self.word_mul(n1[1:], n2[1:])
        if s == 0: return 0, None
        s2, name = self.name_sign(''.join(w))
        return s * s2, name
    def grade(self, name): return len(name) - 1

class RMV(dict):
    """reference multivector: canonical name -> Fraction (no zeros kept? keep zeros out)"""
    pass

def rmul(ref, a, b):
    out = {}
    for na, va in a.items():
        for nb, vb in b.items():
            s, n = ref.mul_names(na, nb)
            if s == 0: continue
            out[n] = out.get(n, 0) + s * va * vb
    return out

def default_config(sig, start):
    d = len(sig)
    gens = [format(start + j, 'x') for j in range(d)]
    metric = {g: s for g, s in zip(gens, sig)}
    names = ['e' + ''.join(c) for k in range(d + 1) for c in combinations(gens, k)]
    return gens, metric, names
