import sys, os, warnings, time; warnings.simplefilter('ignore')
from fractions import Fraction as F
import hypothesis
from hypothesis import settings, strategies as st, HealthCheck, given
from kingdon import Algebra, MultiVector
BIN = ['gp','op','ip','lc','rc','sp','cp','acp','add','sub','rp','sw','proj','div']
UN = ['neg','reverse','involute','conjugate','normsq','hodge','unhodge','inv']
def passthrough(f):
    def g(*a): return f(*a)
    g.__name__ = f.__name__; return g
WRAP = os.environ.get('WRAP') == '1'
FRESH = {}; stats = {'histories': 0, 'steps': 0, 'reorder_hist': 0, 'raised': 0}
def D(m): return {k: v for k, v in m.items() if v != 0}
@st.composite
def history(draw):
    sig = draw(st.lists(st.sampled_from([1, -1, 0]), min_size=1, max_size=3)); n = 2 ** len(sig)
    pool = []
    for _ in range(draw(st.integers(2, 4))):
        ks = draw(st.lists(st.integers(0, n - 1), unique=True, min_size=1, max_size=min(n, 5)))
        pool.append((tuple(ks), tuple(F(draw(st.integers(-4, 4)), draw(st.integers(1, 3))) for _ in ks)))
    # add a permuted copy of some operand by construction
    for _ in range(draw(st.integers(1, 2))):
        ks, vs = draw(st.sampled_from(pool)); p = draw(st.permutations(range(len(ks))))
        pool.append((tuple(ks[i] for i in p), tuple(vs[i] for i in p)))
    steps = draw(st.lists(st.tuples(st.sampled_from(BIN + UN), st.integers(0, len(pool) - 1), st.integers(0, len(pool) - 1)), min_size=8, max_size=30))
    return sig, pool, steps
def run_history(h):
    sig, pool, steps = h
    mkalg = lambda: Algebra(signature=sig, wrapper=passthrough if WRAP else None)
    alg = mkalg(); snap = []; seen = {}; reorder = False
    for op, i, j in steps:
        a, b = pool[i], pool[j]
        def ev(A):
            x, y = MultiVector.fromkeysvalues(A, a[0], list(a[1])), MultiVector.fromkeysvalues(A, b[0], list(b[1]))
            try: r = getattr(x, op)(y) if op in BIN else getattr(x, op)(); return ('ok', D(r), (x, y, r))
            except Exception as e: return ('exc', type(e).__name__, None)
        key = (tuple(sig), WRAP, op, a, b if op in BIN else None)
        if key not in FRESH: FRESH[key] = ev(mkalg())[:2]
        got = ev(alg); stats['steps'] += 1; stats['raised'] += got[0] == 'exc'
        for which, o in (('l', a),) + ((('r', b),) if op in BIN else ()):
            ks = (op, which, frozenset(o[0]))
            if ks in seen and seen[ks] != o[0]: reorder = True
            seen.setdefault(ks, o[0])
        assert got[:2] == FRESH[key], ('history-dependent result', sig, op, a, b, got[:2], FRESH[key])
        if got[0] == 'ok': snap += [(m, tuple(m.keys()), list(m.values())) for m in got[2]]
        for m, ks, vs in snap: assert tuple(m.keys()) == ks and list(m.values()) == vs, 'mutation'
    stats['histories'] += 1; stats['reorder_hist'] += reorder
seed = int(sys.argv[1]); n = int(sys.argv[2]); t = time.time()
@hypothesis.seed(seed)
@settings(max_examples=n, deadline=None, database=None, suppress_health_check=list(HealthCheck), report_multiple_bugs=False)
@given(history())
def test(h): run_history(h)
try: test(); print('PASS', stats, round(time.time() - t, 1))
except AssertionError as e: print('FAIL', str(e)[:700], stats, round(time.time() - t, 1))
