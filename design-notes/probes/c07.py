import sys, random, time, traceback
sys.path.insert(0, '/tmp/probe')
from refops import *; from gen import *
from kingdon import Algebra, MultiVector
import warnings
warnings.simplefilter('ignore')

def run(seed, dmin=0, dmax=4, n=100, per=5, **opts):
    rng = random.Random(seed)
    fails = {}; cnt = 0; stats = {}
    for it in range(n):
        d = rng.randint(dmin, dmax)
        sig = [rng.choice([1, 1, -1, 0]) for _ in range(d)]
        alg = Algebra(signature=sig, **opts)
        ref = R(d, lambda i, j: alg.signs[i, j])
        for _ in range(per):
            ka = rand_keys(rng, d); va = rand_vals(rng, ka)
            kb = rand_keys(rng, d); vb = rand_vals(rng, kb)
            a = MultiVector.fromkeysvalues(alg, ka, list(va)); ra = dict(zip(ka, va))
            b = MultiVector.fromkeysvalues(alg, kb, list(vb)); rb = dict(zip(kb, vb))
            rinv = ref.inv(ra)
            cnt += 1
            try:
                got = a.inv()
                g = dict(got.items())
                if rinv is None:
                    stats['returned_for_singular'] = stats.get('returned_for_singular', 0) + 1
                    fails.setdefault(('inv', 'returned value for singular'), []).append((sig, ka, va, g))
                else:
                    stats['ok'] = stats.get('ok', 0) + 1
                    if not eq(g, rinv):
                        fails.setdefault(('inv', 'value'), []).append((sig, ka, va, g, rinv))
                    else:
                        # div
                        try:
                            q = b / a
                            if not eq(dict(q.items()), ref.gp(rb, rinv)):
                                fails.setdefault(('div', 'value'), []).append((sig, kb, vb, ka, va))
                        except Exception as e:
                            fails.setdefault(('div', type(e).__name__, str(e)[:50]), []).append((sig, kb, vb, ka, va))
            except ZeroDivisionError as e:
                if rinv is not None:
                    fails.setdefault(('inv', 'ZeroDivisionError for invertible'), []).append((sig, ka, va, rinv))
                else:
                    stats['zde_ok'] = stats.get('zde_ok', 0) + 1
            except Exception as e:
                key = ('inv', type(e).__name__, str(e)[:60], 'singular' if rinv is None else 'invertible')
                fails.setdefault(key, []).append((sig, ka, va, traceback.format_exc().splitlines()[-4:]))
    return cnt, fails, stats

if __name__ == '__main__':
    t = time.time()
    cnt, fails, stats = run(int(sys.argv[1]), dmin=int(sys.argv[2]), dmax=int(sys.argv[3]), n=int(sys.argv[4]))
    print('cases', cnt, 'time', time.time() - t, stats)
    for k, v in fails.items():
        print(k, len(v)); print('   ', v[0])
