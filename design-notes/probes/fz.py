#!/venv/bin/python
import sys, os
sys.path.insert(0, '/tmp/probe/deps'); sys.path.insert(0, '/tmp/probe')
import atheris
with atheris.instrument_imports(include=['kingdon.polynomial']):
    import kingdon.polynomial as kp
from hypothesis import given, strategies as st, settings, HealthCheck
from fractions import Fraction as F
import c17
import random
@settings(database=None, deadline=None, suppress_health_check=list(HealthCheck))
@given(st.integers(0, 2**32), st.integers(1, 4))
def prop(seed, depth):
    rng = random.Random(seed)
    k, r, desc = c17.gen(rng, depth)
    if isinstance(k, (kp.RationalPolynomial,)) and isinstance(k.numer, kp.Polynomial):
        assert bool(k) != r.iszero(), desc
atheris.Setup(sys.argv, prop.hypothesis.fuzz_one_input)
atheris.Fuzz()
