import sys, time, random
sys.path.insert(0,'/tmp/probe')
from refops import *; from gen import *
from kingdon import Algebra, MultiVector
from fractions import Fraction as F
import warnings; warnings.simplefilter('ignore')
# time codegen of inverse by sparsity in d=5, d=6
rng = random.Random(int(sys.argv[1]))
d = int(sys.argv[2]); nk = int(sys.argv[3])
sig = [rng.choice([1,1,-1,0]) for _ in range(d)]
alg = Algebra(signature=sig)
ref = R(d, lambda i,j: alg.signs[i,j])
ks = tuple(rng.sample(range(2**d), nk)); vs = [F(rng.randint(-5,5), rng.randint(1,3)) for _ in ks]
a = MultiVector.fromkeysvalues(alg, ks, vs)
t=time.time()
try:
    ai = a.inv(); print('inv time', time.time()-t, 'nkeys out', len(ai))
    print('x*xinv', dict((a*ai).items()) if len(a*ai)<5 else clean(dict((a*ai).items())))
    print('xinv*x', clean(dict((ai*a).items())))
except Exception as e:
    print('EXC', type(e).__name__, e, time.time()-t)
t=time.time(); ri = ref.inv(dict(zip(ks,vs))); print('ref time', time.time()-t, 'singular' if ri is None else 'invertible', sig, ks)
