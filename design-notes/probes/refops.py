"""Reference operators over dict {bitmask:int -> Fraction}, parametrised by sign table T(I,J) and dimension d."""
from fractions import Fraction as F
from itertools import product

def pc(k): return bin(k).count('1')
def clean(m): return {k: v for k, v in m.items() if v != 0}

class R:
    def __init__(self, d, T):
        self.d = d; self.T = T; self.pss = 2**d - 1
    def prod(self, a, b, keep=lambda ka, kb, ko: True):
        out = {}
        for ka, va in a.items():
            for kb, vb in b.items():
                s = self.T(ka, kb)
                if not s: continue
                ko = ka ^ kb
                if not keep(ka, kb, ko): continue
                out[ko] = out.get(ko, 0) + s * va * vb
        return out
    def gp(self, a, b): return self.prod(a, b)
    def op(self, a, b): return self.prod(a, b, lambda x, y, o: pc(o) == pc(x) + pc(y))
    def ip(self, a, b): return self.prod(a, b, lambda x, y, o: pc(o) == abs(pc(x) - pc(y)))
    def lc(self, a, b): return self.prod(a, b, lambda x, y, o: pc(o) == pc(y) - pc(x))
    def rc(self, a, b): return self.prod(a, b, lambda x, y, o: pc(o) == pc(x) - pc(y))
    def sp(self, a, b): return self.prod(a, b, lambda x, y, o: pc(o) == 0)
    def add(self, a, b):
        out = dict(a)
        for k, v in b.items(): out[k] = out.get(k, 0) + v
        return out
    def neg(self, a): return {k: -v for k, v in a.items()}
    def sub(self, a, b): return self.add(a, self.neg(b))
    def scale(self, a, c): return {k: v * c for k, v in a.items()}
    def cp(self, a, b): return self.scale(self.sub(self.gp(a, b), self.gp(b, a)), F(1, 2))
    def acp(self, a, b): return self.scale(self.add(self.gp(a, b), self.gp(b, a)), F(1, 2))
    def reverse(self, a): return {k: v * (-1) ** (pc(k) * (pc(k) - 1) // 2) for k, v in a.items()}
    def involute(self, a): return {k: v * (-1) ** pc(k) for k, v in a.items()}
    def conjugate(self, a): return {k: v * (-1) ** (pc(k) * (pc(k) + 1) // 2) for k, v in a.items()}
    def grade(self, a, gs): return {k: v for k, v in a.items() if pc(k) in gs}
    def sw(self, a, b): return self.gp(self.gp(a, b), self.reverse(a))
    def proj(self, a, b): return self.gp(self.ip(a, b), self.reverse(b))
    def normsq(self, a): return self.gp(a, self.reverse(a))
    # hodge: E ^ hodge(E) = pss  => hodge(E) = s * E^c with T(E, E^c) * s = 1 (wedge of disjoint blades: T has no metric)
    def hodge(self, a): return {self.pss ^ k: v * self.T(k, self.pss ^ k) for k, v in a.items()}
    def unhodge(self, a): return {self.pss ^ k: v * self.T(self.pss ^ k, k) for k, v in a.items()}
    def rp(self, a, b): return self.unhodge(self.op(self.hodge(a), self.hodge(b)))
    def matrix(self, a):
        """left-multiplication matrix M[o][j]: coefficient of blade o in a*e_j"""
        n = 2 ** self.d
        M = [[F(0)] * n for _ in range(n)]
        for ka, va in a.items():
            for j in range(n):
                s = self.T(ka, j)
                if s: M[ka ^ j][j] += s * va
        return M
    def inv(self, a):
        """two-sided inverse or None (finite-dim assoc algebra: left inverse = right inverse)"""
        n = 2 ** self.d
        M = [row[:] + [F(1) if i == 0 else F(0)] for i, row in enumerate(self.matrix(a))]
        # gauss-jordan
        r = 0; piv = []
        for c in range(n):
            p = next((i for i in range(r, n) if M[i][c] != 0), None)
            if p is None: return None
            M[r], M[p] = M[p], M[r]
            pv = M[r][c]; M[r] = [x / pv for x in M[r]]
            for i in range(n):
                if i != r and M[i][c] != 0:
                    f = M[i][c]; M[i] = [x - f * y for x, y in zip(M[i], M[r])]
            r += 1
        return clean({j: M[j][n] for j in range(n)})
    def polarity(self, a):
        pinv = self.inv({self.pss: F(1)})
        if pinv is None: return None
        return self.gp(a, pinv)
    def unpolarity(self, a): return self.gp(a, {self.pss: F(1)})

def eq(a, b): return clean(a) == clean(b)
